#!/usr/bin/env python3
"""Regenerates the table of DESIGN.md section 11 from seeded/*/meta.json (between the markers)."""
import json, glob, os, re
rows = []
for d in sorted(glob.glob('/verif/seeded/*/')):
    name = os.path.basename(d.rstrip('/'))
    m = json.load(open(d + 'meta.json'))
    caught = '; '.join(m.get('caught_by', [])) or '-'
    missed = m.get('initially_missed_by', '') or ''
    files = ', '.join(f.replace('src/', '') for f in m['files_changed'])
    cell = lambda s: s.replace('|', '\\|').replace('\n', ' ')
    rows.append(f"| {name} | {m['property']} | `{cell(files)}` | {cell(m['needs_to_manifest'])} | {cell(caught)} | {cell(missed) or 'caught as first run'} |")
table = "| change | breaks | files | needs, to manifest | caught by (check:signature) | initially missed? what was strengthened |\n|---|---|---|---|---|---|\n" + "\n".join(rows)
p = '/verif/DESIGN.md'
s = open(p).read()
begin, end = '<!-- SEED-TABLE-BEGIN -->', '<!-- SEED-TABLE-END -->'
assert begin in s and end in s
s = s[:s.index(begin) + len(begin)] + "\n" + table + "\n" + s[s.index(end):]
open(p, 'w').write(s)
print(len(rows), 'rows')
