#!/usr/bin/env bash
# Runs checks against a seeded change WITHOUT touching /repo or /verif/harness/target:
# the change is applied in a scratch worktree of /repo and a snapshot of the harness (sources as
# they are now) is built against that worktree in /scratch/tryh.
#   tools/try_seed_scratch.sh <patch.diff> <tier> <ID> [<ID>...]
# (The reference procedure stays tools/try_seed.sh, which applies the change to /repo itself.)
set -u
PATCH="$1"; TIER="$2"; shift 2
WT=/tmp/wt/try
H=/scratch/tryh
export CARGO_NET_OFFLINE=true
if [ ! -d "$WT" ]; then
  git -C /repo worktree add -q --detach "$WT" HEAD || exit 2
fi
git -C "$WT" checkout -q --detach "$(git -C /repo rev-parse HEAD)" 2>/dev/null
git -C "$WT" checkout -q -- . || exit 2
git -C "$WT" apply "$PATCH" || { echo "patch does not apply"; exit 2; }
mkdir -p "$H"
rsync -a --delete --exclude target --exclude 'target-*' /verif/harness/ "$H/harness/" --exclude evidence
rsync -a /verif/check /verif/known_findings.json "$H/"
mkdir -p "$H/tools" && rsync -a /verif/tools/ "$H/tools/"
sed -i 's#path = "/repo"#path = "/tmp/wt/try"#' "$H/harness/Cargo.toml"
trap 'git -C "$WT" checkout -q -- .' EXIT
cd "$H"
for ID in "$@"; do
  OUT=$(./check "$ID" "$TIER" 2>&1); RC=$?
  echo "== $ID $TIER exit=$RC"
  echo "$OUT" | grep -E "signature:|KNOWN-FINDING|BUILD-FAILED|NO-EVIDENCE|^C[0-9]+ (quick|thorough):" | cut -c1-220 | sort | uniq -c | sort -rn | head -8
done
