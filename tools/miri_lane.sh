#!/usr/bin/env bash
# Miri lane: runs `svmon --miri-lane <what>` under the Miri interpreter with several scheduler
# seeds. Prints one JSON line {"lane":"miri","what":..,"built":bool,"exit":N,"ub":bool,...}.
set -u
VERIF_DIR="$(cd "$(dirname "${BASH_SOURCE[0]}")/.." && pwd)"
H="$VERIF_DIR/harness"
WHAT="${1:-c05}"
SEEDS="${2:-0..8}"
OUT="$H/target-miri/lane-out"
mkdir -p "$OUT"
export CARGO_NET_OFFLINE=true
( cd "$H" && MIRIFLAGS="-Zmiri-disable-isolation -Zmiri-many-seeds=$SEEDS -Zmiri-ignore-leaks" \
    timeout 1500 cargo +nightly miri run --offline --target-dir "$H/target-miri" -- --miri-lane "$WHAT" \
    >"$OUT/$WHAT.out" 2>"$OUT/$WHAT.err" )
RC=$?
python3 - "$OUT" "$WHAT" "$RC" <<'PY'
import sys, json, re
out, what, rc = sys.argv[1], sys.argv[2], int(sys.argv[3])
err = open(f"{out}/{what}.err", errors="replace").read()
std = open(f"{out}/{what}.out", errors="replace").read()
built = "error: could not compile" not in err and "error[E" not in err
ub = [l.strip()[:200] for l in err.splitlines() if re.search(r"Undefined Behavior|Data race detected|deadlock|error: unsupported operation", l)]
oks = len(re.findall(r'"miri_lane_ok":true', std))
viol = re.findall(r'"violation":"([^"]+)"', std)
print(json.dumps({"lane": "miri", "what": what, "built": built, "exit": rc, "seeds_ok": oks, "ub": ub[:5], "violations": sorted(set(viol))[:5], "log": out}))
PY
