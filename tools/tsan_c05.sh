#!/usr/bin/env bash
# ThreadSanitizer lane for C05: builds the harness (and stateright, and std) with
# -Zsanitizer=thread and runs the reduced C05 workload. Prints one JSON line:
#   {"lane":"tsan","built":bool,"exit":N,"reports":N,"stateright_reports":[...],"log":path}
set -u
VERIF_DIR="$(cd "$(dirname "${BASH_SOURCE[0]}")/.." && pwd)"
H="$VERIF_DIR/harness"
OUT="$H/target-tsan/lane-out"
SEED="${1:-1}"
mkdir -p "$OUT/evidence"
rm -f "$OUT"/tsan.log.* "$OUT/run.out"
cp -f "$VERIF_DIR/known_findings.json" "$OUT/" 2>/dev/null || true
export CARGO_NET_OFFLINE=true
( cd "$H" && RUSTFLAGS="-Zsanitizer=thread -Cforce-frame-pointers=yes" \
    cargo +nightly build -Zbuild-std --target x86_64-unknown-linux-gnu --offline \
    --target-dir "$H/target-tsan" >"$OUT/build.log" 2>&1 )
if [ $? -ne 0 ]; then
  echo "{\"lane\":\"tsan\",\"built\":false,\"log\":\"$OUT/build.log\"}"
  exit 0
fi
BIN="$H/target-tsan/x86_64-unknown-linux-gnu/debug/svmon"
TSAN_OPTIONS="halt_on_error=0 exitcode=66 log_path=$OUT/tsan.log second_deadlock_stack=1 history_size=4" \
  VERIF_DIR="$OUT" SVMON_LANE=tsan SVMON_BUDGET_S=240 \
  timeout 600 "$BIN" C05 --tier quick --seed "$SEED" >"$OUT/run.out" 2>&1
RC=$?
python3 - "$OUT" "$RC" <<'PY'
import sys, glob, json, re
out, rc = sys.argv[1], int(sys.argv[2])
reports, ours = 0, []
for f in glob.glob(out + "/tsan.log.*"):
    text = open(f, errors="replace").read()
    for block in text.split("WARNING: ThreadSanitizer")[1:]:
        reports += 1
        frames = re.findall(r"#\d+ (\S+)", block)
        mine = [fr for fr in frames if "stateright" in fr]
        if mine:
            ours.append({"kind": block.strip().splitlines()[0][:80], "frames": sorted(set(mine))[:4]})
seen, dedup = set(), []
for r in ours:
    k = json.dumps(r, sort_keys=True)
    if k not in seen:
        seen.add(k); dedup.append(r)
tail = open(out + "/run.out", errors="replace").read().strip().splitlines()[-1:] if glob.glob(out + "/run.out") else []
print(json.dumps({"lane": "tsan", "built": True, "exit": rc, "reports": reports, "stateright_reports": dedup[:10], "summary": tail, "log": out}))
PY
