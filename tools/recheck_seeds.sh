#!/usr/bin/env bash
# Re-runs the responsible checks (quick tier) against every stored seeded change, on scratch
# worktrees (never /repo), in N parallel lanes, and writes seeded/RECHECK.json:
#   tools/recheck_seeds.sh [lanes=4] [patterns='C*']     (several patterns: "C17-* C19-* *-K")
# With patterns other than 'C*' the results are merged into the existing seeded/RECHECK.json.
# A seed counts as caught if at least one of the checks listed in its meta.json exits 1.
set -u
LANES="${1:-4}"; PATTERN="${2:-C*}"
export CARGO_NET_OFFLINE=true
OUT=/scratch/recheck; mkdir -p "$OUT"; rm -f "$OUT"/*.res
set -f; PATS=($PATTERN); set +f
for g in "${PATS[@]}"; do ls -d /verif/seeded/$g/; done | sed 's#/$##' | sort -u > "$OUT/all.txt"
export RECHECK_PATTERN="$PATTERN"
split -n l/$LANES -d "$OUT/all.txt" "$OUT/lane"
lane() {
  L=$1; WT=/tmp/wt/lane$L; H=/scratch/lane$L
  [ -d "$WT" ] || git -C /repo worktree add -q --detach "$WT" HEAD
  git -C "$WT" checkout -q --detach "$(git -C /repo rev-parse HEAD)"; git -C "$WT" checkout -q -- .
  mkdir -p "$H"
  rsync -a --delete --exclude target --exclude 'target-*' /verif/harness/ "$H/harness/"
  rsync -a /verif/check /verif/known_findings.json "$H/"
  sed -i "s#path = \"/repo\"#path = \"$WT\"#" "$H/harness/Cargo.toml"
  while read -r D; do
    NAME=$(basename "$D")
    IDS=$(python3 -c "import json;m=json.load(open('$D/meta.json'));import re;print(' '.join(sorted({c.split(':')[0] for c in m['caught_by'] if re.fullmatch(r'C[0-9][0-9]',c.split(':')[0])})))")
    git -C "$WT" checkout -q -- .
    if ! git -C "$WT" apply "$D/patch.diff" 2>/dev/null; then echo "$NAME APPLY-FAILED" >> "$OUT/lane$L.res"; continue; fi
    R=""
    for ID in $IDS; do
      ( cd "$H" && ./check "$ID" quick > "$OUT/$NAME.$ID.out" 2>&1 ); RC=$?
      R="$R $ID=$RC"
    done
    echo "$NAME$R" >> "$OUT/lane$L.res"
    git -C "$WT" checkout -q -- .
  done < "$OUT/lane0$L"
}
for L in $(seq 0 $((LANES-1))); do lane $L & done
wait
cat "$OUT"/lane*.res | sort > "$OUT/all.res"
python3 - <<'PY'
import json,datetime,os
res={}
if os.environ.get('RECHECK_PATTERN','C*')!='C*' and os.path.exists('/verif/seeded/RECHECK.json'):
    res=json.load(open('/verif/seeded/RECHECK.json'))['seeds']
for l in open('/scratch/recheck/all.res'):
    p=l.split(); name=p[0]
    if len(p)>1 and p[1]=='APPLY-FAILED': res[name]={'applied':False}; continue
    checks={x.split('=')[0]:int(x.split('=')[1]) for x in p[1:]}
    res[name]={'applied':True,'exit_codes':checks,'caught':any(v==1 for v in checks.values())}
json.dump({'date':datetime.date.today().isoformat(),'how':'tools/recheck_seeds.sh: every stored change applied in a scratch worktree, the checks named in its meta.json run in the quick tier (default seed) with the harness as committed','seeds':res,
           'caught':sum(1 for v in res.values() if v.get('caught')),'total':len(res)},open('/verif/seeded/RECHECK.json','w'),indent=1)
print(sum(1 for v in res.values() if v.get('caught')),'of',len(res),'caught')
print('NOT CAUGHT:',[k for k,v in res.items() if not v.get('caught')])
PY
