#!/usr/bin/env python3
"""Stores a confirmed seeded change under /verif/seeded/<name>/ (patch.diff, demo.rs, notes.md, meta.json)."""
import json, os, shutil, sys, datetime
name, src, prop, needs, caught = sys.argv[1:6]
missed = sys.argv[6] if len(sys.argv) > 6 else ""
dst = f"/verif/seeded/{name}"
os.makedirs(dst, exist_ok=True)
for f in ("patch.diff", "demo.rs", "notes.md"):
    if os.path.exists(f"{src}/{f}"):
        shutil.copy(f"{src}/{f}", f"{dst}/{f}")
files = [l[6:].strip() for l in open(f"{dst}/patch.diff") if l.startswith("+++ b/")]
meta = {
    "property": prop,
    "origin": "independent sub-agent given only the property text and a scratch worktree of /repo",
    "files_changed": files,
    "needs_to_manifest": needs,
    "confirmed": {
        "how": "tools/verify_seed.sh in scratch worktree /tmp/wt/verify (git apply; cargo build --offline; cargo nextest run --workspace --no-fail-fast --offline; demo as tests/seed_demo.rs with and without the change)",
        "build": "ok", "suite": "84 passed, same 3 pre-existing failures",
        "demo_with_change": "fails", "demo_on_clean_tree": "passes",
        "date": datetime.date.today().isoformat(),
    },
    "checks_run": "tools/try_seed.sh <patch> quick <ids> (git -C /repo apply; ./check <id> quick; git -C /repo checkout -- .)",
    "caught_by": [c for c in caught.split(",") if c],
    "initially_missed_by": missed,
}
json.dump(meta, open(f"{dst}/meta.json", "w"), indent=1)
print("stored", dst)
