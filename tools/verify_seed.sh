#!/usr/bin/env bash
# Confirms a seeded change in a scratch worktree (never in /repo):
#   tools/verify_seed.sh <src-dir-with-patch.diff+demo.rs> 
# prints: APPLY BUILD SUITE(passed/failed) DEMO_WITH(fail expected) DEMO_WITHOUT(pass expected)
set -u
SRC="$1"
WT=/tmp/wt/verify
export CARGO_NET_OFFLINE=true
if [ ! -d "$WT" ]; then
  git -C /repo worktree add -q --detach "$WT" HEAD || exit 2
  cp /repo/Cargo.lock "$WT/"
fi
cd "$WT" || exit 2
git checkout -q -- . ; rm -rf tests
git apply --check "$SRC/patch.diff" 2>/dev/null || { echo "APPLY=fail"; exit 1; }
git apply "$SRC/patch.diff"
echo "APPLY=ok files=$(git diff --name-only | tr '\n' ' ')"
cargo build --offline >/tmp/wt/verify-build.log 2>&1 && echo "BUILD=ok" || { echo "BUILD=fail"; git checkout -q -- .; exit 1; }
SUITE=$(cargo nextest run --workspace --no-fail-fast --offline 2>&1 | grep -E "Summary" | tail -1)
echo "SUITE=$SUITE"
mkdir -p tests && cp "$SRC/demo.rs" tests/seed_demo.rs
timeout 900 cargo test --offline --test seed_demo >/tmp/wt/verify-demo-with.log 2>&1; RC1=$?
echo "DEMO_WITH_MUTATION exit=$RC1 ($(grep -E '^test result' /tmp/wt/verify-demo-with.log | tail -1))"
git checkout -q -- .
timeout 900 cargo test --offline --test seed_demo >/tmp/wt/verify-demo-without.log 2>&1; RC2=$?
echo "DEMO_ON_CLEAN_TREE exit=$RC2 ($(grep -E '^test result' /tmp/wt/verify-demo-without.log | tail -1))"
rm -rf tests
[ $RC1 -ne 0 ] && [ $RC2 -eq 0 ] && echo "CONFIRMED" || echo "NOT-CONFIRMED"
