#!/usr/bin/env bash
# Applies a seeded change to /repo, runs the given checks, and ALWAYS restores /repo.
#   tools/try_seed.sh <patch.diff> <tier> <ID> [<ID>...]
set -u
PATCH="$1"; TIER="$2"; shift 2
cd /verif
if [ -n "$(git -C /repo status --porcelain --untracked-files=no)" ]; then echo "/repo is not clean"; exit 2; fi
git -C /repo apply "$PATCH" || { echo "patch does not apply"; exit 2; }
trap 'git -C /repo checkout -q -- .' EXIT
for ID in "$@"; do
  OUT=$(./check "$ID" "$TIER" 2>&1); RC=$?
  echo "== $ID $TIER exit=$RC"
  echo "$OUT" | grep -E "signature:|KNOWN-FINDING|BUILD-FAILED|NO-EVIDENCE|^C[0-9]+ (quick|thorough):" | cut -c1-220 | sort | uniq -c | sort -rn | head -8
done
