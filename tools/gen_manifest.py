#!/usr/bin/env python3
"""Regenerates /verif/MANIFEST.json from the table below (single source of truth)."""
import json, os, subprocess

HERE = os.path.dirname(os.path.dirname(os.path.abspath(__file__)))

# id -> (built?, category, technique, level text, level note, design ref)
CHECKS = {
 "C01": (True, "exploration",
   "runtime monitoring: visitor log + counters of real BFS/DFS/on-demand runs vs an independent reachability oracle",
   "Random finite graph models (self-loops, joins, cycles, ignored actions, several initial states, boundary cuts) are run through the real checkers at 1-16 threads, with default and tiny block sizes and on large layered graphs; a visitor log and the public counters are compared with an independently computed reachable set (exactly-once, real paths, unique_state_count, state_count >= unique). Held on the executions produced; not a proof over all models or schedules.",
   "Trusts the 60-line reachability oracle and the generator; u32 states so 64-bit fingerprint collisions are ignored; schedules are whatever the OS produced.",
   "DESIGN.md section 5 C01"),
 "C02": (True, "exploration",
   "runtime monitoring: discoveries/assert_properties/is_done of completed real checks vs labels evaluated on an oracle reachable set",
   "Random graphs with mixed always/sometimes properties (plus eventually bystanders) checked by BFS, DFS, on-demand and DFS+symmetry (mirror-symmetric graphs) at 1-8 threads; for every property the presence of a discovery is compared with the oracle, as are assert_properties, is_done and the Checker helper methods (discovery, assert_any_discovery, assert_no_discovery, assert_discovery). Exploration of sampled models, not all models.",
   "Trusts the reachability oracle and the label generator; symmetric models are limited to an involution symmetry here (richer ones under C10).",
   "DESIGN.md section 5 C02"),
 "C03": (True, "exploration",
   "runtime monitoring: every Path returned by discoveries() re-validated step by step against the model (witness validator)",
   "All five strategies (BFS, DFS, on-demand, simulation with several seeds, DFS+symmetry), all six finish conditions, 1-4 threads, graphs with several properties of all kinds so checking continues past the first discovery; each returned path must start in an initial state, follow real in-boundary transitions and meet the expectation-specific end condition (eventually: no satisfying state, and terminal or - simulation only - cycle closing).",
   "Trusts the 50-line validator; simulation runs need an in-boundary initial state and a state-count target to terminate.",
   "DESIGN.md section 5 C03"),
 "C04": (True, "exploration",
   "runtime monitoring with a recording Hasher: ==, hash byte streams and fingerprints of real values vs equality of the structural descriptions they were built from",
   "Containers, timers, networks, clocks, dense maps, testers and actor-system states are built from structural descriptions along randomised construction paths; for equal / near-miss / unrelated pairs the check demands description equality <=> == <=> identical hash byte stream, and equal fingerprints for equal values. Comparing byte streams (not 64-bit results) lets a finite run tell a systematic merge from bad luck.",
   "Trusts that the description captures every behaviour-relevant component (it mirrors the public fields); PartialOrd of the hashable containers is out of scope.",
   "DESIGN.md section 5 C04"),
 "C05": (True, "exploration",
   "runtime monitoring + sanitizers: job-market event log (hooked under the market lock) checked against a sequential market specification, visited multisets/verdicts vs single-threaded run, real join under a watchdog with hang diagnosis, perturbation at hook points; TSan and Miri lanes in thorough",
   "2-32 worker threads under seven perturbation profiles, tiny and default block sizes, large shared-block graphs, the Broker facade driven directly, stop reasons (exhaustion, finish condition, target, model panic); the on-demand checker driven step by step (check_fingerprint requests along the oracle's frontier, then run_to_completion and join). Monitors: exactly-once evaluation, verdict equality with the 1-thread run, market conservation/ordering spec over the event log, termination of join, panic surfacing. Thorough adds a ThreadSanitizer build of the same workload and Miri with many scheduler seeds. Schedules seen are counted (distinct interleavings), not enumerated.",
   "Reach is limited to interleavings actually produced (OS scheduling, injected delays, Miri seeds); a late join while the market still changes is inconclusive.",
   "DESIGN.md section 5 C05"),
 "C06": (True, "exploration",
   "runtime monitoring: lock-step differential of the real ActorModel against an independent reference semantics at every state of walks and BFS prefixes",
   "Generated table-driven actor systems (timers, random choices, crashes, history hooks, all network kinds, lossy or not): at every visited state the multiset of effective (action, successor) pairs and next_steps of the real model are compared with a reference interpreter written from the property text, component by component.",
   "The reference interpreter is the executable reading of the statement; it shares only the reaction tables with the code under test. Offered-but-ineffective actions are not compared.",
   "DESIGN.md section 5 C06"),
 "C07": (True, "exploration",
   "runtime monitoring: reference network model + per-kind trace laws over recorded deliver/drop/send traces; bounded iteration of iter_all",
   "Networks built through the public constructors and evolved through the real ActorModel are compared with a reference network (contents, len, iter_all as a multiset with bounded iteration, iter_deliverable) at every state; taken traces are additionally checked against conservation laws per network kind (ordered: oldest-of-flow, non-duplicating: consumed <= sent, duplicating: no delivery after drop, drops only when lossy).",
   "send/on_deliver/on_drop are crate-private, so they are exercised through ActorModel steps only.",
   "DESIGN.md section 5 C07"),
 "C08": (True, "exploration",
   "runtime monitoring: is_consistent/serialized_history/error results of the real tester vs brute-force linearizability by definition",
   "Plausible, random and ill-formed histories over five sequential specifications (three provided, two harness-defined), plus complete enumeration of small histories: the tester's answer, its serialization, its length and its error behaviour are compared with a definitional brute-force oracle.",
   "Oracle search budget 2e6 nodes per history (exhaustion is inconclusive); histories have <= 9 operations over <= 4 threads.",
   "DESIGN.md section 5 C08"),
 "C09": (True, "fault_enumeration",
   "runtime monitoring: crash injected at every prefix of recorded walks, compared with the reference semantics; real BFS/DFS visited sets vs reference reachable sets keyed incl. crash flags",
   "For each recorded base walk a crash of every up actor is injected at every prefix (enumerated), the crash successor and following steps are compared with the reference, and direct assertions (crash offered iff budget allows, crashed actors silent, their mail kept) are made; bounded systems are checked exhaustively by the real checkers and the visited set must equal the reference reachable set including all crashed configurations.",
   "Base walks and systems are sampled; reference reachable sets above 6000 states are skipped.",
   "DESIGN.md section 5 C09"),
 "C11": (True, "exploration",
   "runtime monitoring: eventually-discoveries of every strategy vs a maximal-path (terminal or lasso) oracle on the graph",
   "General graphs for the no-false-alarm half (any strategy, incl. simulation, a quarter of the runs cut by a random depth limit) and oracle-verified forests for exactness of the exhaustive checkers; 1-4 threads; property mixes.",
   "Misses on non-forest graphs are allowed (documented limitation) and only counted.",
   "DESIGN.md section 5 C11"),
 "C12": (True, "exploration",
   "runtime monitoring: stop reason vs configuration on real runs; logical bounds on evaluations after timeout expiry measured in worker subprocesses; seed replay of first traces",
   "Seven sub-checks (HasDiscoveries::matches vs definition; early stop only for a reason; target_state_count; target_max_depth incl. 1-thread BFS completeness below the limit; timeout expiry on effectively unbounded tree and chain models for all strategies and thread counts (a run that ends before its timeout does not count); unexpired timeout transparency; seed replay incl. a recording chooser).",
   "Timeout verdicts use logical bounds (evaluations started > 2.5 s after expiry <= 2 blocks per thread); a late join with few late evaluations is inconclusive.",
   "DESIGN.md section 5 C12"),
 "C13": (True, "exploration",
   "runtime monitoring: visit order and discovery lengths of real 1-thread BFS vs oracle BFS distances",
   "Graphs with joins offering routes of different length, several initial states and boundaries; multi-block layered graphs; order must be non-decreasing in oracle distance and every always/sometimes witness as short as the oracle minimum.",
   "Only threads(1).spawn_bfs() is judged, as the statement says.",
   "DESIGN.md section 5 C13"),
 "C14": (True, "exploration",
   "runtime monitoring: real SC tester vs brute-force sequential consistency by definition; clone-immutability and Lin-subset-of-SC monitors",
   "Same history workloads as C08 (half of them recorded through on_invret where an invocation is directly followed by its return) against a program-order-only oracle; whenever the linearizability tester accepts the SC tester must; at every prefix a clone is extended and the original's Debug/Hash/==/len/verdict/serialization compared before and after (both testers).",
   "Same oracle budget as C08.",
   "DESIGN.md section 5 C14"),
 "C20": (True, "exploration",
   "runtime monitoring: results of real clock/map operations vs algebraic laws and an independent component-wise model",
   "Random and related vector clocks (padding, one component off) and complete small spaces for pairs and triples: partial order laws through partial_cmp and through the comparison operators, equality/hash compatibility, merge_max as least upper bound, incremented; dense maps vs a Vec model incl. order independence, gap/duplicate rejection, insert and rewrite under plans with ties.",
   "Components stay below u32::MAX (release build without overflow checks).",
   "DESIGN.md section 5 C20"),
 "C10": (True, "exploration",
   "runtime monitoring: representative()/reindex/rewrite outputs vs an independently applied stable-sort permutation and brute-force orbits; DFS with vs without symmetry on symmetric models",
   "Plans from vectors with ties vs an independent stable-sort permutation; every structural Rewrite impl must commute with it; representative() of generated and reachable actor-system states vs the permutation applied by hand to every component (orbit membership by brute force over n!); symmetric process-vector models and symmetric actor systems checked by DFS with and without symmetry (verdict equality, class/reachable count bounds, class coverage, path validity).",
   "Symmetric models are generated to be literally invariant under renaming; canonicity of representatives is not demanded.",
   "DESIGN.md section 5 C10"),
 "C15": (True, "exploration",
   "runtime monitoring: bisimulation monitor walking adapter-wrapped and bare systems in lock-step through the real ActorModel",
   "Table actors using messages, timers and random choices are wrapped in Choice (all positions, three actor types), Choice<A,Never>, RegisterActor::Server, WORegisterActor::Server and a nesting; wrapped and bare systems are compared state pair by state pair (enabled actions, successors, inner states, network, timers, choices, crash flags). The scripted Vec client is driven directly.",
   "The bare system is the oracle (its own semantics is C06's subject); name() is judged for Choice only.",
   "DESIGN.md section 5 C15"),
 "C16": (True, "exploration",
   "runtime monitoring: prefix / exactly-once / ack-after-hand-over checker over send and hand-over logs of link-wrapped actors along hostile walks and real BFS runs",
   "Link-wrapped actors with unique payloads (some reactions stateless) over a lossy duplicating unordered network; sends and hand-overs are recorded at the wrapped actors' handler boundary while the monitor re-executes each chosen step; hostile schedulers (reorder, duplicate, drop, resend) and the real BFS searching the same clauses as an always-property. One genuine defect (overtaken message acknowledged and never handed over) is recorded as a known finding and identified by its exact cause; every other violation is reported.",
   "The equality clause is checked through its safety core (a message neither pending nor handed over); actors do not restart.",
   "DESIGN.md section 5 C16"),
 "C17": (True, "exploration",
   "runtime monitoring: offline trace checker over the handler-invocation and datagram log of real spawn() runs on loopback UDP",
   "Worker subprocesses run the real UDP runtime with instrumented actors; a driver sends scripted, garbage and oversized datagrams (scripts arm timers with identical deadlines, block in slow handlers, cancel timers from timeout handlers) and receives the actors' output; the recorded log is checked for start-once-first, message causality and sender identity, one datagram per Send at the encoded address, timers firing only while armed and not before the latest lower bound, and state threading. Id/address conversions are checked on random and edge values.",
   "Loopback UDP may drop: missing deliveries are bounded-progress misses, not violations; no upper bound on timer latency.",
   "DESIGN.md section 5 C17"),
 "C18": (True, "exploration",
   "runtime monitoring: is_valid_step/is_valid_history vs invoke on random sequences; reconstructed client-visible history vs the recorded tester along walks of register-harness models",
   "Reference objects: random valid/invalid op-return sequences for the three provided specs. Register harness: generated servers (immediate / round trip / never, correct or arbitrary values, at most one answer) with 1-3 clients on all networks incl. duplicating + lossy; the provided record hooks are wrapped to log raw envelopes, and at every state the recorded tester must equal the replay of client-visible calls, be well-formed, with one outstanding operation and fresh ids per client.",
   "Object state after a failing step is not compared; servers answer at most once as the statement assumes.",
   "DESIGN.md section 5 C18"),
 "C19": (True, "exploration",
   "runtime monitoring: real HTTP responses of serve() vs the Model API computed directly; Path API round trips; on-demand requests tracked against the pending frontier",
   "The real Explorer is served on loopback in worker subprocesses and queried with valid and mutated fingerprint paths, status polls and run-to-completion; views, 404s, counts and decoded property paths are compared with the model. Path::from_actions/encode/from_fingerprints/final_state round trips on visitor and discovery paths. The on-demand checker is driven through the Checker API with exact tracking of the pending frontier, then must finish like BFS and join.",
   "ui/app.js needs a browser and is not exercised; recent_path/svg are not judged.",
   "DESIGN.md section 5 C19"),
}


NOT_BUILT_REASON = "check not built yet in this session (work in progress; see DESIGN.md section 5)"

def main():
    props = [json.loads(l) for l in open(os.path.join(HERE, "properties.jsonl"))]
    hooks = subprocess.run(["git", "-C", "/repo", "log", "--format=%H %s"], capture_output=True, text=True).stdout.splitlines()
    hook_commits = [l.split()[0] for l in hooks if " verif hooks:" in l]
    checks, na = [], []
    for p in props:
        pid = p["id"]
        ent = CHECKS.get(pid)
        if not ent or not ent[0]:
            na.append({"property_id": pid, "reason": ent[5] if ent and len(ent) > 6 else NOT_BUILT_REASON})
            continue
        _, cat, technique, text, note, ref = ent[:6]
        checks.append({
            "property_id": pid,
            "quick_cmd": f"./check {pid} quick",
            "thorough_cmd": f"./check {pid} thorough",
            "evidence_file": f"/verif/evidence/{pid}.json",
            "replay_cmd_template": f"./check {pid} --replay {{path}}",
            "engine": "svmon",
            "level_claimed": {"category": cat, "text": text, "design_ref": ref},
            "level_note": note,
            "technique": technique,
        })
    manifest = {
        "version": 1,
        "setup_cmd": "./check --setup",
        "hooks": {
            "guard": "getong_stateright_verif",
            "enable": "cargo feature: the harness crate depends on stateright = { path = \"/repo\", features = [\"getong_stateright_verif\"] }, so every ./check rebuilds /repo's working tree with the hooks on",
            "baseline_off_cmd": "cd /repo && cargo nextest run --workspace --no-fail-fast --offline || cargo test --workspace --no-fail-fast --offline",
            "source_commits": list(reversed(hook_commits)),
            "add_only": True,
        },
        "engines": [{
            "name": "svmon",
            "path": "/verif/harness",
            "serves_properties": [c["property_id"] for c in checks],
            "kind_free_text": "Rust harness linking the real stateright crate (hooks on): seeded workload generators, reference-model oracles, offline trace checkers, sanitizer lanes",
        }],
        "checks": checks,
        "not_applicable": na,
        "notes": "Family: runtime monitoring and sanitizers. Verdicts are three-valued; inconclusive cases never become violations. Known findings: /verif/known_findings.json.",
    }
    json.dump(manifest, open(os.path.join(HERE, "MANIFEST.json"), "w"), indent=1)
    print(f"MANIFEST.json: {len(checks)} checks, {len(na)} not claimed")

if __name__ == "__main__":
    main()
