#!/usr/bin/env python3
"""Regenerates /verif/MANIFEST.json from the table below (single source of truth)."""
import json, os, subprocess

HERE = os.path.dirname(os.path.dirname(os.path.abspath(__file__)))

# id -> (built?, category, technique, level text, level note, design ref)
CHECKS = {
 "C01": (True, "exploration",
   "runtime monitoring: visitor log + counters of real BFS/DFS/on-demand runs vs an independent reachability oracle",
   "Random finite graph models (self-loops, joins, cycles, ignored actions, several initial states, boundary cuts) are run through the real checkers at 1-16 threads, with default and tiny block sizes and on large layered graphs; a visitor log and the public counters are compared with an independently computed reachable set (exactly-once, real paths, unique_state_count, state_count >= unique). Held on the executions produced; not a proof over all models or schedules.",
   "Trusts the 60-line reachability oracle and the generator; u32 states so 64-bit fingerprint collisions are ignored; schedules are whatever the OS produced.",
   "DESIGN.md section 5 C01"),
}

NOT_BUILT_REASON = "check not built yet in this session (work in progress; see DESIGN.md section 5)"

def main():
    props = [json.loads(l) for l in open(os.path.join(HERE, "properties.jsonl"))]
    hooks = subprocess.run(["git", "-C", "/repo", "log", "--format=%H %s"], capture_output=True, text=True).stdout.splitlines()
    hook_commits = [l.split()[0] for l in hooks if " verif hooks:" in l]
    checks, na = [], []
    for p in props:
        pid = p["id"]
        ent = CHECKS.get(pid)
        if not ent or not ent[0]:
            na.append({"property_id": pid, "reason": ent[5] if ent and len(ent) > 6 else NOT_BUILT_REASON})
            continue
        _, cat, technique, text, note, ref = ent[:6]
        checks.append({
            "property_id": pid,
            "quick_cmd": f"./check {pid} quick",
            "thorough_cmd": f"./check {pid} thorough",
            "evidence_file": f"/verif/evidence/{pid}.json",
            "replay_cmd_template": f"./check {pid} --replay {{path}}",
            "engine": "svmon",
            "level_claimed": {"category": cat, "text": text, "design_ref": ref},
            "level_note": note,
            "technique": technique,
        })
    manifest = {
        "version": 1,
        "setup_cmd": "./check --setup",
        "hooks": {
            "guard": "getong_stateright_verif",
            "enable": "cargo feature: the harness crate depends on stateright = { path = \"/repo\", features = [\"getong_stateright_verif\"] }, so every ./check rebuilds /repo's working tree with the hooks on",
            "baseline_off_cmd": "cd /repo && cargo nextest run --workspace --no-fail-fast --offline || cargo test --workspace --no-fail-fast --offline",
            "source_commits": list(reversed(hook_commits)),
            "add_only": True,
        },
        "engines": [{
            "name": "svmon",
            "path": "/verif/harness",
            "serves_properties": [c["property_id"] for c in checks],
            "kind_free_text": "Rust harness linking the real stateright crate (hooks on): seeded workload generators, reference-model oracles, offline trace checkers, sanitizer lanes",
        }],
        "checks": checks,
        "not_applicable": na,
        "notes": "Family: runtime monitoring and sanitizers. Verdicts are three-valued; inconclusive cases never become violations. Known findings: /verif/known_findings.json.",
    }
    json.dump(manifest, open(os.path.join(HERE, "MANIFEST.json"), "w"), indent=1)
    print(f"MANIFEST.json: {len(checks)} checks, {len(na)} not claimed")

if __name__ == "__main__":
    main()
