//! G2: table-driven actor systems, and O3: an independent reference semantics of an actor-model
//! step written from the property texts (C06, C07, C09). The real model and the reference share
//! only the actors' deterministic reaction tables.

use crate::rng::Rng;
use serde_json::{json, Value};
use stateright::actor::{
    Actor, ActorModel, ActorModelAction, ActorModelState, Envelope, Id, LossyNetwork, Network, Out,
};
use std::borrow::Cow;
use std::collections::{BTreeMap, BTreeSet, VecDeque};
use std::time::Duration;

pub type Msg = u8;
pub type Timer = u8;
pub type Rand = u8;

#[derive(Clone, Debug, PartialEq, Eq, Hash, PartialOrd, Ord)]
pub struct TState {
    pub phase: u8,
    pub log: Vec<u8>,
}

#[derive(Clone, Debug, PartialEq, Eq, Hash)]
pub enum Cmd {
    Send(usize, Msg),
    /// Send to whoever sent the message being handled (falls back to self outside `on_msg`).
    Reply(Msg),
    SetTimer(Timer),
    CancelTimer(Timer),
    ChooseRandom(String, Vec<Rand>),
    RemoveRandom(String),
}

#[derive(Clone, Debug, PartialEq, Eq, Hash, Default)]
pub struct Reaction {
    pub next_phase: Option<u8>,
    pub append_log: Option<u8>,
    pub cmds: Vec<Cmd>,
    /// The handler asks for its state mutably (`Cow::Owned`) even when the value stays the same.
    /// Only generated when `SysKnobs::touch` is set (adapter transparency, C15): whether such a
    /// step counts as "changing nothing" is not something the reference semantics take a side on.
    pub touch: bool,
}

#[derive(Clone, Debug, PartialEq, Eq, Hash, Default)]
pub struct TableActor {
    pub start_phase: u8,
    pub start_cmds: Vec<Cmd>,
    pub on_msg: BTreeMap<(u8, Msg), Reaction>,
    pub on_timeout: BTreeMap<(u8, Timer), Reaction>,
    pub on_random: BTreeMap<(u8, Rand), Reaction>,
    pub log_bound: usize,
    pub name: String,
}

/// A command with destinations resolved.
#[derive(Clone, Debug, PartialEq, Eq, Hash)]
pub enum RCmd {
    Send(usize, Msg),
    SetTimer(Timer),
    CancelTimer(Timer),
    ChooseRandom(String, Vec<Rand>),
}

impl TableActor {
    /// The pure table look-up shared by the real actor and the reference: returns the new local
    /// state if (and only if) it really changes, and the commands in emission order.
    pub fn react(&self, r: &Reaction, st: &TState, me: usize, src: Option<usize>) -> (Option<TState>, Vec<RCmd>) {
        let mut new = st.clone();
        if let Some(p) = r.next_phase {
            new.phase = p;
        }
        if let Some(x) = r.append_log {
            if new.log.len() < self.log_bound {
                new.log.push(x);
            }
        }
        let cmds = self.resolve(&r.cmds, me, src);
        (if &new != st { Some(new) } else { None }, cmds)
    }

    pub fn resolve(&self, cmds: &[Cmd], me: usize, src: Option<usize>) -> Vec<RCmd> {
        cmds.iter()
            .map(|c| match c {
                Cmd::Send(d, m) => RCmd::Send(*d, *m),
                Cmd::Reply(m) => RCmd::Send(src.unwrap_or(me), *m),
                Cmd::SetTimer(t) => RCmd::SetTimer(*t),
                Cmd::CancelTimer(t) => RCmd::CancelTimer(*t),
                Cmd::ChooseRandom(k, v) => RCmd::ChooseRandom(k.clone(), v.clone()),
                Cmd::RemoveRandom(k) => RCmd::ChooseRandom(k.clone(), vec![]),
            })
            .collect()
    }
}

/// Emits the commands in order through every public way of filling an `Out`: directly, through
/// `Out::append` of a second buffer onto a non-empty one (the split point depends only on the
/// commands, so the real actor and replays agree) and `Out::broadcast` for runs of equal sends.
pub fn emit<A: Actor<Msg = Msg, Timer = Timer, Random = Rand>>(cmds: Vec<RCmd>, o: &mut Out<A>) {
    let h = crate::ctx::hash_of(&cmds);
    if cmds.len() >= 2 && h % 3 == 0 {
        // a short head emitted directly, a longer tail appended
        let k = 1 + (h / 3) as usize % (cmds.len() - 1).min(2);
        let tail = cmds[k..].to_vec();
        emit_plain(cmds[..k].to_vec(), o);
        let mut rest: Out<A> = Out::new();
        emit_plain(tail, &mut rest);
        o.append(&mut rest);
        return;
    }
    emit_plain(cmds, o);
}

fn emit_plain<A: Actor<Msg = Msg, Timer = Timer, Random = Rand>>(cmds: Vec<RCmd>, o: &mut Out<A>) {
    let mut i = 0;
    while i < cmds.len() {
        // a run of sends of one message to different recipients -> one broadcast
        if let RCmd::Send(_, m) = &cmds[i] {
            let mut j = i;
            let mut ids: Vec<Id> = Vec::new();
            while let Some(RCmd::Send(d, m2)) = cmds.get(j) {
                if m2 != m {
                    break;
                }
                ids.push(Id::from(*d));
                j += 1;
            }
            if ids.len() >= 2 && crate::ctx::hash_of(&(&cmds, i)) % 2 == 0 {
                o.broadcast(ids.iter(), m);
                i = j;
                continue;
            }
        }
        emit_one(cmds[i].clone(), o);
        i += 1;
    }
}

fn emit_one<A: Actor<Msg = Msg, Timer = Timer, Random = Rand>>(c: RCmd, o: &mut Out<A>) {
    for c in [c] {
        match c {
            RCmd::Send(d, m) => o.send(Id::from(d), m),
            RCmd::SetTimer(t) => o.set_timer(t, Duration::from_millis(0)..Duration::from_millis(0)),
            RCmd::CancelTimer(t) => o.cancel_timer(t),
            RCmd::ChooseRandom(k, v) => {
                if v.is_empty() {
                    // "no options" is said either way: by remove_random, or by overwriting the
                    // key with an empty list
                    if crate::ctx::hash_of(&k) % 2 == 0 {
                        o.remove_random(k)
                    } else {
                        o.choose_random(k, Vec::new())
                    }
                } else {
                    o.choose_random(k, v)
                }
            }
        }
    }
}

impl Actor for TableActor {
    type Msg = Msg;
    type Timer = Timer;
    type Random = Rand;
    type State = TState;

    fn on_start(&self, id: Id, o: &mut Out<Self>) -> TState {
        emit(self.resolve(&self.start_cmds, usize::from(id), None), o);
        TState { phase: self.start_phase, log: Vec::new() }
    }

    fn on_msg(&self, id: Id, state: &mut Cow<TState>, src: Id, msg: Msg, o: &mut Out<Self>) {
        if let Some(r) = self.on_msg.get(&(state.phase, msg)) {
            let (new, cmds) = self.react(r, state, usize::from(id), Some(usize::from(src)));
            if let Some(new) = new {
                *state.to_mut() = new;
            } else if r.touch {
                let _ = state.to_mut();
            }
            emit(cmds, o);
        }
    }

    fn on_timeout(&self, id: Id, state: &mut Cow<TState>, timer: &Timer, o: &mut Out<Self>) {
        if let Some(r) = self.on_timeout.get(&(state.phase, *timer)) {
            let (new, cmds) = self.react(r, state, usize::from(id), None);
            if let Some(new) = new {
                *state.to_mut() = new;
            } else if r.touch {
                let _ = state.to_mut();
            }
            emit(cmds, o);
        }
    }

    fn on_random(&self, id: Id, state: &mut Cow<TState>, random: &Rand, o: &mut Out<Self>) {
        if let Some(r) = self.on_random.get(&(state.phase, *random)) {
            let (new, cmds) = self.react(r, state, usize::from(id), None);
            if let Some(new) = new {
                *state.to_mut() = new;
            } else if r.touch {
                let _ = state.to_mut();
            }
            emit(cmds, o);
        }
    }

    fn name(&self) -> String {
        self.name.clone()
    }
}

// ---------------------------------------------------------------------------------------------
// System description.

#[derive(Clone, Copy, Debug, PartialEq, Eq, Hash)]
pub enum NetKind {
    Ordered,
    NonDup,
    Dup,
}

/// History entry: (0 = received / 1 = sent, src, dst, msg).
pub type HEntry = (u8, u8, u8, Msg);
pub type Hist = Vec<HEntry>;

#[derive(Clone, Debug, PartialEq, Eq, Hash)]
pub struct TCfg {
    pub rec_in: bool,
    pub rec_out: bool,
    pub hist_bound: usize,
    pub net_bound: usize,
}

#[derive(Clone, Debug)]
pub struct System {
    pub actors: Vec<TableActor>,
    pub kind: NetKind,
    pub lossy: bool,
    pub max_crashes: usize,
    pub cfg: TCfg,
    pub init_net: Vec<(usize, usize, Msg)>,
}

pub type TModel = ActorModel<TableActor, TCfg, Hist>;
pub type TModelState = ActorModelState<TableActor, Hist>;
pub type TAction = ActorModelAction<Msg, Timer, Rand>;

fn rec_in(cfg: &TCfg, h: &Hist, e: Envelope<&Msg>) -> Option<Hist> {
    if cfg.rec_in && h.len() < cfg.hist_bound {
        let mut h = h.clone();
        h.push((0, usize::from(e.src) as u8, usize::from(e.dst) as u8, *e.msg));
        Some(h)
    } else {
        None
    }
}

fn rec_out(cfg: &TCfg, h: &Hist, e: Envelope<&Msg>) -> Option<Hist> {
    if cfg.rec_out && h.len() < cfg.hist_bound {
        let mut h = h.clone();
        h.push((1, usize::from(e.src) as u8, usize::from(e.dst) as u8, *e.msg));
        Some(h)
    } else {
        None
    }
}

fn boundary(cfg: &TCfg, s: &TModelState) -> bool {
    s.network.len() <= cfg.net_bound
}

impl System {
    pub fn network(&self) -> Network<Msg> {
        let envs = self.init_net.iter().map(|(s, d, m)| Envelope { src: Id::from(*s), dst: Id::from(*d), msg: *m });
        match self.kind {
            NetKind::Ordered => Network::new_ordered(envs),
            NetKind::NonDup => Network::new_unordered_nonduplicating(envs),
            NetKind::Dup => Network::new_unordered_duplicating(envs),
        }
    }

    pub fn model(&self) -> TModel {
        // The builder calls commute as far as the documented API goes, so the order in which
        // they are made varies with the system (deterministically): options before or after the
        // actors, actors added one by one or all at once.
        let order = self.structural_hash() % 4;
        let lossy = if self.lossy { LossyNetwork::Yes } else { LossyNetwork::No };
        let mut m = ActorModel::new(self.cfg.clone(), Vec::new());
        if order == 1 || order == 3 {
            m = m.max_crashes(self.max_crashes).lossy_network(lossy).init_network(self.network());
        }
        if order >= 2 {
            for a in self.actors.iter().cloned() {
                m = m.actor(a);
            }
        } else {
            m = m.actors(self.actors.clone());
        }
        if order == 0 || order == 2 {
            m = m.init_network(self.network()).lossy_network(lossy).max_crashes(self.max_crashes);
        }
        m.record_msg_in(rec_in).record_msg_out(rec_out).within_boundary(boundary)
    }

    pub fn to_json(&self) -> Value {
        json!({
            "network": format!("{:?}", self.kind), "lossy": self.lossy, "max_crashes": self.max_crashes,
            "cfg": format!("{:?}", self.cfg), "init_network": self.init_net,
            "actors": self.actors.iter().map(|a| json!({
                "start": format!("phase {} {:?}", a.start_phase, a.start_cmds),
                "on_msg": a.on_msg.iter().map(|(k, v)| format!("{:?} -> {:?}", k, v)).collect::<Vec<_>>(),
                "on_timeout": a.on_timeout.iter().map(|(k, v)| format!("{:?} -> {:?}", k, v)).collect::<Vec<_>>(),
                "on_random": a.on_random.iter().map(|(k, v)| format!("{:?} -> {:?}", k, v)).collect::<Vec<_>>(),
                "log_bound": a.log_bound,
            })).collect::<Vec<_>>(),
        })
    }

    pub fn structural_hash(&self) -> u64 {
        crate::ctx::hash_of(&(&self.actors, self.kind, self.lossy, self.max_crashes, &self.cfg, &self.init_net))
    }
}

// ---------------------------------------------------------------------------------------------
// Generation.

#[derive(Clone, Debug)]
pub struct SysKnobs {
    pub max_actors: usize,
    pub timers: bool,
    pub randoms: bool,
    pub crashes: bool,
    pub kinds: Vec<NetKind>,
    pub identical_actors: bool,
    /// Generate reactions that touch their state without changing it (see `Reaction::touch`).
    pub touch: bool,
}

impl Default for SysKnobs {
    fn default() -> Self {
        SysKnobs {
            max_actors: 3,
            timers: true,
            randoms: true,
            crashes: true,
            kinds: vec![NetKind::Ordered, NetKind::NonDup, NetKind::Dup],
            identical_actors: false,
            touch: false,
        }
    }
}

fn gen_cmds(rng: &mut Rng, n: usize, k: &SysKnobs, msgs: u8, timers: u8, rands: u8, in_msg: bool) -> Vec<Cmd> {
    let mut cmds = Vec::new();
    let count = match rng.below(10) {
        0..=3 => 0,
        4..=6 => 1,
        7 | 8 => 2,
        _ => 3,
    };
    for _ in 0..count {
        let c = match rng.below(10) {
            0..=4 => {
                if in_msg && rng.pct(40) {
                    Cmd::Reply(rng.below(msgs as usize) as u8)
                } else {
                    // occasionally a recipient that does not exist
                    let d = if rng.pct(6) { n + rng.below(2) } else { rng.below(n) };
                    Cmd::Send(d, rng.below(msgs as usize) as u8)
                }
            }
            5 | 6 if k.timers => Cmd::SetTimer(rng.below(timers as usize) as u8),
            7 if k.timers => Cmd::CancelTimer(rng.below(timers as usize) as u8),
            8 if k.randoms => {
                let key = format!("k{}", rng.below(rands as usize));
                let mut choices: Vec<u8> = (0..rng.range(1, 3)).map(|_| rng.below(3) as u8).collect();
                if rng.pct(15) {
                    choices.push(choices[0]); // a repeated choice
                }
                Cmd::ChooseRandom(key, choices)
            }
            9 if k.randoms => Cmd::RemoveRandom(format!("k{}", rng.below(rands as usize))),
            _ => Cmd::Send(rng.below(n), rng.below(msgs as usize) as u8),
        };
        cmds.push(c);
    }
    if count >= 2 && rng.pct(25) {
        // identical messages sent twice
        if let Some(Cmd::Send(d, m)) = cmds.iter().find(|c| matches!(c, Cmd::Send(..))).cloned() {
            cmds.push(Cmd::Send(d, m));
        }
    }
    cmds
}

fn gen_reaction(rng: &mut Rng, n: usize, k: &SysKnobs, phases: u8, msgs: u8, timers: u8, rands: u8, in_msg: bool) -> Reaction {
    Reaction {
        next_phase: if rng.pct(45) { Some(rng.below(phases as usize) as u8) } else { None },
        append_log: if rng.pct(25) { Some(rng.below(3) as u8) } else { None },
        cmds: gen_cmds(rng, n, k, msgs, timers, rands, in_msg),
        touch: k.touch && rng.pct(30),
    }
}

pub fn gen_actor(rng: &mut Rng, n: usize, k: &SysKnobs, phases: u8, msgs: u8, timers: u8, rands: u8) -> TableActor {
    let mut a = TableActor {
        start_phase: rng.below(phases as usize) as u8,
        log_bound: rng.below(3),
        ..TableActor::default()
    };
    a.start_cmds = gen_cmds(rng, n, k, msgs, timers, rands, false);
    if a.start_cmds.is_empty() && rng.pct(60) {
        a.start_cmds.push(Cmd::Send(rng.below(n), rng.below(msgs as usize) as u8));
    }
    let p_defined = *rng.pick(&[50u32, 75, 100]);
    for p in 0..phases {
        for m in 0..msgs {
            if rng.pct(p_defined) {
                a.on_msg.insert((p, m), gen_reaction(rng, n, k, phases, msgs, timers, rands, true));
            }
        }
        if k.timers {
            for t in 0..timers {
                if rng.pct(80) {
                    let mut r = gen_reaction(rng, n, k, phases, msgs, timers, rands, false);
                    match rng.below(6) {
                        0 => {
                            // pure re-arm: the documented "no-op with timer"
                            r = Reaction { cmds: vec![Cmd::SetTimer(t)], ..Reaction::default() };
                        }
                        1 => r.cmds.push(Cmd::SetTimer(t)), // re-arm among other effects
                        2 => r = Reaction::default(),       // a handler that does nothing at all
                        _ => {}
                    }
                    a.on_timeout.insert((p, t), r);
                }
            }
        }
        if k.randoms {
            for r in 0..3u8 {
                if rng.pct(70) {
                    a.on_random.insert((p, r), gen_reaction(rng, n, k, phases, msgs, timers, rands, false));
                }
            }
        }
    }
    a
}

pub fn gen_system(rng: &mut Rng, k: &SysKnobs) -> System {
    let n = rng.range(1, k.max_actors);
    let phases = rng.range(1, 3) as u8;
    let msgs = rng.range(1, 3) as u8;
    let timers = rng.range(1, 2) as u8;
    let rands = rng.range(1, 2) as u8;
    let mut actors = Vec::new();
    if k.identical_actors || rng.pct(30) {
        let a = gen_actor(rng, n, k, phases, msgs, timers, rands);
        for _ in 0..n {
            actors.push(a.clone());
        }
    } else {
        for _ in 0..n {
            actors.push(gen_actor(rng, n, k, phases, msgs, timers, rands));
        }
    }
    let kind = *rng.pick(&k.kinds);
    let mut init_net = Vec::new();
    if rng.pct(35) {
        for _ in 0..rng.range(1, 3) {
            init_net.push((rng.below(n), rng.below(n), rng.below(msgs as usize) as u8));
        }
        if rng.pct(30) {
            let e = init_net[0];
            init_net.push(e);
        }
    }
    System {
        actors,
        kind,
        lossy: rng.pct(45),
        max_crashes: if k.crashes && rng.pct(50) { rng.range(1, n) } else { 0 },
        cfg: TCfg {
            rec_in: rng.pct(50),
            rec_out: rng.pct(50),
            hist_bound: rng.range(0, 4),
            net_bound: rng.range(2, 5),
        },
        init_net,
    }
}

// ---------------------------------------------------------------------------------------------
// O3: reference semantics.

pub type REnv = (usize, usize, Msg);

#[derive(Clone, Debug, PartialEq, Eq, Hash, PartialOrd, Ord)]
pub enum RNet {
    Ordered(BTreeMap<(usize, usize), VecDeque<Msg>>),
    NonDup(BTreeMap<REnv, usize>),
    Dup(BTreeSet<REnv>, Option<REnv>),
}

#[derive(Clone, Debug, PartialEq, Eq, Hash, PartialOrd, Ord)]
pub struct RState {
    pub actors: Vec<TState>,
    pub net: RNet,
    pub timers: Vec<BTreeSet<Timer>>,
    pub randoms: Vec<BTreeMap<String, Vec<Rand>>>,
    pub crashed: Vec<bool>,
    pub history: Hist,
}

#[derive(Clone, Debug, PartialEq, Eq, Hash, PartialOrd, Ord)]
pub enum RAct {
    Deliver(usize, usize, Msg),
    Drop(usize, usize, Msg),
    Timeout(usize, Timer),
    Crash(usize),
    Select(usize, String, Rand),
}

impl RNet {
    pub fn new(kind: NetKind) -> RNet {
        match kind {
            NetKind::Ordered => RNet::Ordered(BTreeMap::new()),
            NetKind::NonDup => RNet::NonDup(BTreeMap::new()),
            NetKind::Dup => RNet::Dup(BTreeSet::new(), None),
        }
    }

    pub fn send(&mut self, e: REnv) {
        match self {
            RNet::Ordered(m) => m.entry((e.0, e.1)).or_default().push_back(e.2),
            RNet::NonDup(m) => *m.entry(e).or_insert(0) += 1,
            RNet::Dup(s, _) => {
                s.insert(e);
            }
        }
    }

    pub fn len(&self) -> usize {
        match self {
            RNet::Ordered(m) => m.values().map(VecDeque::len).sum(),
            RNet::NonDup(m) => m.values().sum(),
            RNet::Dup(s, _) => s.len(),
        }
    }

    /// The distinct envelopes that may be delivered (or dropped) now.
    pub fn deliverable(&self) -> Vec<REnv> {
        match self {
            RNet::Ordered(m) => m.iter().map(|((s, d), q)| (*s, *d, *q.front().unwrap())).collect(),
            RNet::NonDup(m) => m.keys().copied().collect(),
            RNet::Dup(s, _) => s.iter().copied().collect(),
        }
    }

    /// All envelopes, with multiplicity.
    pub fn all(&self) -> Vec<REnv> {
        let mut v = Vec::new();
        match self {
            RNet::Ordered(m) => {
                for ((s, d), q) in m {
                    for x in q {
                        v.push((*s, *d, *x));
                    }
                }
            }
            RNet::NonDup(m) => {
                for (e, c) in m {
                    for _ in 0..*c {
                        v.push(*e);
                    }
                }
            }
            RNet::Dup(s, _) => v.extend(s.iter().copied()),
        }
        v.sort();
        v
    }

    /// Removes exactly one copy (the head of its flow on ordered networks).
    pub fn remove_one(&mut self, e: REnv) -> bool {
        match self {
            RNet::Ordered(m) => {
                let Some(q) = m.get_mut(&(e.0, e.1)) else { return false };
                if q.front() != Some(&e.2) {
                    return false;
                }
                q.pop_front();
                if q.is_empty() {
                    m.remove(&(e.0, e.1));
                }
                true
            }
            RNet::NonDup(m) => {
                let Some(c) = m.get_mut(&e) else { return false };
                *c -= 1;
                if *c == 0 {
                    m.remove(&e);
                }
                true
            }
            RNet::Dup(s, _) => s.remove(&e),
        }
    }

    pub fn on_deliver(&mut self, e: REnv) -> bool {
        match self {
            RNet::Dup(s, last) => {
                if !s.contains(&e) {
                    return false;
                }
                *last = Some(e); // stays deliverable; the marker is part of the state identity
                true
            }
            _ => self.remove_one(e),
        }
    }
}

pub struct Reference<'a> {
    pub sys: &'a System,
    /// Log of every send performed by `apply` (for the trace-level checks of C07).
    pub sends: std::cell::RefCell<Vec<REnv>>,
}

impl<'a> Reference<'a> {
    pub fn new(sys: &'a System) -> Self {
        Reference { sys, sends: Default::default() }
    }

    fn apply(&self, st: &mut RState, i: usize, cmds: Vec<RCmd>) {
        let cfg = &self.sys.cfg;
        for c in cmds {
            match c {
                RCmd::Send(d, m) => {
                    if cfg.rec_out && st.history.len() < cfg.hist_bound {
                        st.history.push((1, i as u8, d as u8, m));
                    }
                    st.net.send((i, d, m));
                    self.sends.borrow_mut().push((i, d, m));
                }
                RCmd::SetTimer(t) => {
                    st.timers[i].insert(t);
                }
                RCmd::CancelTimer(t) => {
                    st.timers[i].remove(&t);
                }
                RCmd::ChooseRandom(k, v) => {
                    if v.is_empty() {
                        st.randoms[i].remove(&k);
                    } else {
                        st.randoms[i].insert(k, v);
                    }
                }
            }
        }
    }

    pub fn init(&self) -> RState {
        let n = self.sys.actors.len();
        let mut net = RNet::new(self.sys.kind);
        for e in &self.sys.init_net {
            net.send(*e);
        }
        let mut st = RState {
            actors: Vec::new(),
            net,
            timers: vec![BTreeSet::new(); n],
            randoms: vec![BTreeMap::new(); n],
            crashed: vec![false; n],
            history: Vec::new(),
        };
        for (i, a) in self.sys.actors.iter().enumerate() {
            st.actors.push(TState { phase: a.start_phase, log: Vec::new() });
            let cmds = a.resolve(&a.start_cmds, i, None);
            self.apply(&mut st, i, cmds);
        }
        st
    }

    /// The actions that may be enabled (some may turn out to have no effect).
    pub fn enabled(&self, st: &RState) -> Vec<RAct> {
        let n = self.sys.actors.len();
        let mut acts = Vec::new();
        for e in st.net.deliverable() {
            if self.sys.lossy {
                acts.push(RAct::Drop(e.0, e.1, e.2));
            }
            if e.1 < n && !st.crashed[e.1] {
                acts.push(RAct::Deliver(e.0, e.1, e.2));
            }
        }
        for (i, ts) in st.timers.iter().enumerate() {
            for t in ts {
                acts.push(RAct::Timeout(i, *t));
            }
        }
        let down = st.crashed.iter().filter(|c| **c).count();
        if down < self.sys.max_crashes {
            for i in 0..n {
                if !st.crashed[i] {
                    acts.push(RAct::Crash(i));
                }
            }
        }
        for (i, rs) in st.randoms.iter().enumerate() {
            for (k, choices) in rs {
                for c in choices {
                    acts.push(RAct::Select(i, k.clone(), *c));
                }
            }
        }
        acts
    }

    /// One atomic step; `None` = the action yields no transition.
    pub fn step(&self, st: &RState, act: &RAct) -> Option<RState> {
        let sys = self.sys;
        let cfg = &sys.cfg;
        match act {
            RAct::Drop(s, d, m) => {
                let mut next = st.clone();
                if !next.net.remove_one((*s, *d, *m)) {
                    return None;
                }
                Some(next)
            }
            RAct::Deliver(s, d, m) => {
                let a = &sys.actors[*d];
                let (new_state, cmds) = match a.on_msg.get(&(st.actors[*d].phase, *m)) {
                    Some(r) => a.react(r, &st.actors[*d], *d, Some(*s)),
                    None => (None, Vec::new()),
                };
                let no_op = new_state.is_none() && cmds.is_empty();
                if no_op && sys.kind != NetKind::Ordered {
                    return None;
                }
                let mut next = st.clone();
                if cfg.rec_in && next.history.len() < cfg.hist_bound {
                    next.history.push((0, *s as u8, *d as u8, *m));
                }
                if !next.net.on_deliver((*s, *d, *m)) {
                    return None;
                }
                if let Some(ns) = new_state {
                    next.actors[*d] = ns;
                }
                self.apply(&mut next, *d, cmds);
                Some(next)
            }
            RAct::Timeout(i, t) => {
                let a = &sys.actors[*i];
                let (new_state, cmds) = match a.on_timeout.get(&(st.actors[*i].phase, *t)) {
                    Some(r) => a.react(r, &st.actors[*i], *i, None),
                    None => (None, Vec::new()),
                };
                if new_state.is_none() && cmds == vec![RCmd::SetTimer(*t)] {
                    return None; // merely renews the same timer
                }
                let mut next = st.clone();
                next.timers[*i].remove(t);
                if let Some(ns) = new_state {
                    next.actors[*i] = ns;
                }
                self.apply(&mut next, *i, cmds);
                Some(next)
            }
            RAct::Crash(i) => {
                let mut next = st.clone();
                next.timers[*i].clear();
                next.randoms[*i].clear();
                next.crashed[*i] = true;
                Some(next)
            }
            RAct::Select(i, k, c) => {
                let a = &sys.actors[*i];
                let (new_state, cmds) = match a.on_random.get(&(st.actors[*i].phase, *c)) {
                    Some(r) => a.react(r, &st.actors[*i], *i, None),
                    None => (None, Vec::new()),
                };
                let mut next = st.clone();
                next.randoms[*i].remove(k);
                if let Some(ns) = new_state {
                    next.actors[*i] = ns;
                }
                self.apply(&mut next, *i, cmds);
                Some(next)
            }
        }
    }

    /// Effective transitions as a sorted multiset.
    pub fn transitions(&self, st: &RState) -> Vec<(RAct, RState)> {
        let mut out: Vec<(RAct, RState)> = self
            .enabled(st)
            .into_iter()
            .filter_map(|a| self.step(st, &a).map(|n| (a, n)))
            .collect();
        out.sort();
        out
    }

    pub fn within_boundary(&self, st: &RState) -> bool {
        st.net.len() <= self.sys.cfg.net_bound
    }
}

// ---------------------------------------------------------------------------------------------
// O5: canonical key of a real state = its image in the reference state space, built from the
// public components only.

pub fn abstract_net(net: &Network<Msg>) -> RNet {
    let e = |env: &Envelope<Msg>| (usize::from(env.src), usize::from(env.dst), env.msg);
    match net {
        Network::Ordered(m) => RNet::Ordered(
            m.iter().map(|((s, d), q)| ((usize::from(*s), usize::from(*d)), q.iter().copied().collect())).collect(),
        ),
        Network::UnorderedNonDuplicating(m) => RNet::NonDup(m.iter().map(|(env, c)| (e(env), *c)).collect()),
        Network::UnorderedDuplicating(s, last) => RNet::Dup(s.iter().map(e).collect(), last.as_ref().map(e)),
    }
}

pub fn abstract_state(s: &TModelState) -> RState {
    RState {
        actors: s.actor_states.iter().map(|a| (**a).clone()).collect(),
        net: abstract_net(&s.network),
        timers: s.timers_set.iter().map(|t| t.iter().copied().collect()).collect(),
        randoms: s
            .random_choices
            .iter()
            .map(|r| r.map.iter().map(|(k, v)| (k.clone(), v.clone())).collect())
            .collect(),
        crashed: s.crashed.clone(),
        history: s.history.clone(),
    }
}

pub fn abstract_action(a: &TAction) -> RAct {
    match a {
        ActorModelAction::Deliver { src, dst, msg } => RAct::Deliver(usize::from(*src), usize::from(*dst), *msg),
        ActorModelAction::Drop(env) => RAct::Drop(usize::from(env.src), usize::from(env.dst), env.msg),
        ActorModelAction::Timeout(id, t) => RAct::Timeout(usize::from(*id), *t),
        ActorModelAction::Crash(id) => RAct::Crash(usize::from(*id)),
        ActorModelAction::SelectRandom { actor, key, random } => RAct::Select(usize::from(*actor), key.clone(), *random),
    }
}

pub fn concrete_action(a: &RAct) -> TAction {
    match a {
        RAct::Deliver(s, d, m) => ActorModelAction::Deliver { src: Id::from(*s), dst: Id::from(*d), msg: *m },
        RAct::Drop(s, d, m) => ActorModelAction::Drop(Envelope { src: Id::from(*s), dst: Id::from(*d), msg: *m }),
        RAct::Timeout(i, t) => ActorModelAction::Timeout(Id::from(*i), *t),
        RAct::Crash(i) => ActorModelAction::Crash(Id::from(*i)),
        RAct::Select(i, k, c) => ActorModelAction::SelectRandom { actor: Id::from(*i), key: k.clone(), random: *c },
    }
}

pub fn rstate_json(s: &RState) -> Value {
    json!({
        "actors": s.actors.iter().map(|a| format!("{:?}", a)).collect::<Vec<_>>(),
        "network": format!("{:?}", s.net),
        "timers": format!("{:?}", s.timers),
        "randoms": format!("{:?}", s.randoms),
        "crashed": s.crashed,
        "history": format!("{:?}", s.history),
    })
}
