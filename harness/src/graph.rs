//! G1: generated finite graph models, plus the oracles that only need the graph
//! (O1 reachability/distances, O2 maximal-path analysis, O6 witness validation).

use crate::rng::Rng;
use serde_json::{json, Value};
use stateright::{Expectation, Model, Path, Property};
use std::collections::VecDeque;
use std::hash::{Hash, Hasher};
use std::sync::atomic::{AtomicU64, Ordering};
use std::sync::{Arc, Mutex};

pub const MAX_SLOTS: usize = 8;
pub const NAMES: [&str; MAX_SLOTS] = ["p0", "p1", "p2", "p3", "p4", "p5", "p6", "p7"];

/// `None` is an action that the model ignores (`next_state` returns `None`).
pub type Edge = Option<u32>;

#[derive(Debug)]
pub struct GraphData {
    pub n: usize,
    pub inits: Vec<u32>,
    pub out: Vec<Vec<Edge>>,
    pub inb: Vec<bool>,
    /// `labels[slot][state]`
    pub labels: Vec<Vec<bool>>,
    /// `(expectation, slot)`; the property is named `NAMES[index]`.
    pub props: Vec<(Expectation, usize)>,
    /// Busy-wait per `actions` call (microseconds), to make runs long enough to be interesting.
    pub spin_us: u64,
    /// Panic when `next_state` is asked about this state (model-code panic injection).
    pub panic_in_next_state: Option<u32>,
    /// Panic when a property is evaluated on this state.
    pub panic_in_property: Option<u32>,
    /// Counts calls of `actions` (evaluations seen from inside the model).
    pub actions_calls: AtomicU64,
}

#[derive(Clone, Debug)]
pub struct GraphModel(pub Arc<GraphData>);

impl std::ops::Deref for GraphModel {
    type Target = GraphData;
    fn deref(&self) -> &GraphData {
        &self.0
    }
}

fn cond<const K: usize>(m: &GraphModel, s: &u32) -> bool {
    if m.panic_in_property == Some(*s) {
        panic!("injected property panic at state {}", s);
    }
    m.labels[m.props[K].1][*s as usize]
}

#[allow(clippy::type_complexity)]
const CONDS: [fn(&GraphModel, &u32) -> bool; MAX_SLOTS] = [
    cond::<0>,
    cond::<1>,
    cond::<2>,
    cond::<3>,
    cond::<4>,
    cond::<5>,
    cond::<6>,
    cond::<7>,
];

pub fn spin(us: u64) {
    if us == 0 {
        return;
    }
    let t = std::time::Instant::now();
    while (t.elapsed().as_micros() as u64) < us {
        std::hint::spin_loop();
    }
}

impl Model for GraphModel {
    type State = u32;
    type Action = u16;

    fn init_states(&self) -> Vec<u32> {
        self.inits.clone()
    }

    fn actions(&self, state: &u32, actions: &mut Vec<u16>) {
        self.actions_calls.fetch_add(1, Ordering::Relaxed);
        spin(self.spin_us);
        for a in 0..self.out[*state as usize].len() {
            actions.push(a as u16);
        }
    }

    fn next_state(&self, state: &u32, action: u16) -> Option<u32> {
        if self.panic_in_next_state == Some(*state) {
            panic!("injected next_state panic at state {}", state);
        }
        self.out[*state as usize][action as usize]
    }

    fn properties(&self) -> Vec<Property<Self>> {
        self.props
            .iter()
            .enumerate()
            .map(|(i, (e, _))| Property {
                expectation: e.clone(),
                name: NAMES[i],
                condition: CONDS[i],
            })
            .collect()
    }

    fn within_boundary(&self, state: &u32) -> bool {
        self.inb[*state as usize]
    }
}

impl GraphData {
    pub fn new(n: usize) -> GraphData {
        GraphData {
            n,
            inits: Vec::new(),
            out: vec![Vec::new(); n],
            inb: vec![true; n],
            labels: Vec::new(),
            props: Vec::new(),
            spin_us: 0,
            panic_in_next_state: None,
            panic_in_property: None,
            actions_calls: AtomicU64::new(0),
        }
    }

    pub fn structural_hash(&self) -> u64 {
        let mut h = std::collections::hash_map::DefaultHasher::new();
        self.n.hash(&mut h);
        self.inits.hash(&mut h);
        self.out.hash(&mut h);
        self.inb.hash(&mut h);
        self.labels.hash(&mut h);
        for (e, s) in &self.props {
            (expectation_tag(e), s).hash(&mut h);
        }
        h.finish()
    }

    pub fn to_json(&self) -> Value {
        let props: Vec<Value> = self
            .props
            .iter()
            .enumerate()
            .map(|(i, (e, slot))| {
                let truth: Vec<u32> = (0..self.n as u32)
                    .filter(|s| self.labels[*slot][*s as usize])
                    .collect();
                json!({"name": NAMES[i], "kind": expectation_tag(e), "true_at": truth})
            })
            .collect();
        let edges: Vec<Value> = self
            .out
            .iter()
            .map(|es| {
                Value::Array(
                    es.iter()
                        .map(|e| match e {
                            Some(v) => json!(v),
                            None => json!("ignored"),
                        })
                        .collect(),
                )
            })
            .collect();
        let outside: Vec<usize> = (0..self.n).filter(|s| !self.inb[*s]).collect();
        json!({"n": self.n, "inits": self.inits, "out": edges, "outside_boundary": outside, "properties": props})
    }

    /// Compact description for samples when the graph is large.
    pub fn summary(&self) -> Value {
        if self.n <= 24 {
            return self.to_json();
        }
        let edges: usize = self.out.iter().map(Vec::len).sum();
        json!({"n": self.n, "inits": self.inits.len(), "edges": edges,
               "outside_boundary": self.inb.iter().filter(|b| !**b).count(),
               "properties": self.props.iter().enumerate().map(|(i,(e,_))| format!("{}:{}", NAMES[i], expectation_tag(e))).collect::<Vec<_>>()})
    }
}

pub fn expectation_tag(e: &Expectation) -> &'static str {
    match e {
        Expectation::Always => "always",
        Expectation::Sometimes => "sometimes",
        Expectation::Eventually => "eventually",
    }
}

// ---------------------------------------------------------------------------------------------
// Generation.

#[derive(Clone, Debug)]
pub struct Knobs {
    pub max_n: usize,
    pub forest: bool,
    pub layered: Option<(usize, usize)>, // (depth, width)
    pub max_inits: usize,
    pub allow_outside_inits: bool,
}

impl Default for Knobs {
    fn default() -> Self {
        Knobs {
            max_n: 24,
            forest: false,
            layered: None,
            max_inits: 3,
            allow_outside_inits: true,
        }
    }
}

/// Generates the graph part (no properties).
pub fn gen_graph(rng: &mut Rng, knobs: &Knobs) -> GraphData {
    if let Some((depth, width)) = knobs.layered {
        return gen_layered(rng, depth, width);
    }
    if knobs.forest {
        return gen_forest(rng, knobs);
    }
    let n = match rng.below(10) {
        0 => 1,
        1 => 2,
        2..=5 => rng.range(3, 10.min(knobs.max_n)),
        _ => rng.range(1, knobs.max_n),
    };
    let mut g = GraphData::new(n);
    let max_deg = rng.range(1, 4);
    let p_self = *rng.pick(&[0u32, 0, 10, 30]);
    let p_ignored = *rng.pick(&[0u32, 0, 10, 25]);
    let p_dup = *rng.pick(&[0u32, 10, 30]);
    let p_terminal = *rng.pick(&[0u32, 10, 30]);
    // A shape bias: "forward" favours DAG-like graphs with joins, otherwise uniform targets
    // (cycles, back edges).
    let forward = rng.pct(40);
    for s in 0..n {
        if rng.pct(p_terminal) {
            continue;
        }
        let deg = rng.range(0, max_deg);
        for _ in 0..deg {
            let e = if rng.pct(p_ignored) {
                None
            } else if rng.pct(p_self) {
                Some(s as u32)
            } else if forward && s + 1 < n && rng.pct(85) {
                Some(rng.range(s + 1, n - 1) as u32)
            } else {
                Some(rng.below(n) as u32)
            };
            g.out[s].push(e);
            if rng.pct(p_dup) {
                g.out[s].push(e);
            }
        }
    }
    // Boundary.
    match rng.below(8) {
        0 => g.inb = vec![false; n],          // everything outside
        1 | 2 => {
            let p = *rng.pick(&[10u32, 25, 50]);
            for s in 0..n {
                g.inb[s] = !rng.pct(p);
            }
        }
        _ => {}
    }
    // Initial states: distinct.
    let k = match rng.below(10) {
        0 => 0,
        1..=5 => 1,
        _ => rng.range(1, knobs.max_inits.min(n)),
    };
    let mut candidates: Vec<u32> = (0..n as u32).collect();
    rng.shuffle(&mut candidates);
    if forward && rng.pct(70) {
        candidates.sort();
    } else if rng.pct(70) {
        // prefer initial states from which much is reachable (otherwise most generated models
        // would have a one- or two-state reachable set)
        let reach_from = |g: &GraphData, s: u32| -> usize {
            if !g.inb[s as usize] {
                return 0;
            }
            let mut seen = vec![false; g.n];
            let mut stack = vec![s];
            seen[s as usize] = true;
            let mut count = 0;
            while let Some(x) = stack.pop() {
                count += 1;
                for t in g.in_boundary_successors(x) {
                    if !seen[t as usize] {
                        seen[t as usize] = true;
                        stack.push(t);
                    }
                }
            }
            count
        };
        let mut scored: Vec<(usize, u32)> = candidates.iter().map(|c| (reach_from(&g, *c), *c)).collect();
        scored.sort_by(|a, b| b.0.cmp(&a.0));
        // keep some randomness among the best few
        let top = scored.len().min(3);
        rng.shuffle(&mut scored[..top]);
        candidates = scored.into_iter().map(|(_, c)| c).collect();
    }
    for c in candidates {
        if g.inits.len() >= k {
            break;
        }
        if !knobs.allow_outside_inits && !g.inb[c as usize] {
            continue;
        }
        g.inits.push(c);
    }
    if rng.below(8) == 0 {
        // "initials only": everything except the initial states is outside
        for s in 0..n {
            g.inb[s] = g.inits.contains(&(s as u32));
        }
    }
    g
}

/// Every reachable state has exactly one path: a set of trees; some leaves get edges to
/// out-of-boundary states or ignored actions.
fn gen_forest(rng: &mut Rng, knobs: &Knobs) -> GraphData {
    let n = rng.range(1, knobs.max_n);
    let mut g = GraphData::new(n);
    let roots = rng.range(1, knobs.max_inits.min(n));
    // states 0..roots are roots; each other state gets exactly one parent among earlier states
    for r in 0..roots {
        g.inits.push(r as u32);
    }
    let chainy = rng.pct(40);
    for s in roots..n {
        let parent = if chainy && rng.pct(70) { s - 1 } else { rng.below(s) };
        g.out[parent].push(Some(s as u32));
    }
    // add ignored actions
    if rng.pct(40) {
        for s in 0..n {
            if rng.pct(25) {
                let at = rng.below(g.out[s].len() + 1);
                g.out[s].insert(at, None);
            }
        }
    }
    // boundary cuts some subtrees (states outside are unreachable, so uniqueness is kept)
    if rng.pct(50) {
        for s in roots..n {
            if rng.pct(15) {
                g.inb[s] = false;
            }
        }
    }
    for es in g.out.iter_mut() {
        rng.shuffle(es);
    }
    g
}

/// `depth` layers of `width` states, edges only to the next layer: shallow and wide, so that
/// visitor paths stay short while the state count is large.
fn gen_layered(rng: &mut Rng, depth: usize, width: usize) -> GraphData {
    let n = depth * width;
    let mut g = GraphData::new(n);
    // A handful of initial states reach only a cone of the graph (a few thousand states at
    // most); most layered graphs start from a sizeable part of the first layer so that the run
    // really spans many 1500-state blocks.
    let inits = match rng.below(10) {
        0..=2 => rng.range(1, 3.min(width)),
        3..=6 => (width / 16).max(1),
        _ => (width / 4).max(1),
    };
    for i in 0..inits {
        g.inits.push(i as u32);
    }
    let deg = rng.range(2, 4);
    // "funnel" graphs: the random edges of a layer all aim at a narrow window of the next layer,
    // so that the same successor is generated by many states (and worker threads) at about the
    // same time - the situation in which insert-if-absent arbitration on the visited set matters
    let funnel = rng.pct(40);
    for l in 0..depth - 1 {
        let window = if funnel { (width / 64).max(8).min(width) } else { width };
        for i in 0..width {
            let s = l * width + i;
            for _ in 0..deg {
                g.out[s].push(Some(((l + 1) * width + rng.below(window)) as u32));
            }
            // make sure the layer below is well covered
            g.out[s].push(Some(((l + 1) * width + (i * 2) % width) as u32));
            g.out[s].push(Some(((l + 1) * width + (i * 2 + 1) % width) as u32));
        }
    }
    g
}

/// Label patterns for property slots.
pub fn gen_labels(rng: &mut Rng, g: &GraphData, reach: &Reach) -> Vec<bool> {
    let n = g.n;
    match rng.below(9) {
        0 => vec![false; n],
        1 => vec![true; n],
        2 | 3 => {
            let p = *rng.pick(&[5u32, 20, 50, 80, 95]);
            (0..n).map(|_| rng.pct(p)).collect()
        }
        4 => {
            // true only at one depth
            let maxd = reach.dist.iter().filter(|d| **d != u32::MAX).max().copied().unwrap_or(0);
            let d = rng.below(maxd as usize + 1) as u32;
            (0..n).map(|s| reach.dist[s] == d).collect()
        }
        5 => {
            // true exactly at terminals (no in-boundary successor)
            (0..n).map(|s| g.in_boundary_successors(s as u32).is_empty()).collect()
        }
        6 => {
            // true except at one reachable state
            let rs: Vec<usize> = (0..n).filter(|s| reach.reachable[*s]).collect();
            let mut v = vec![true; n];
            if !rs.is_empty() {
                v[*rng.pick(&rs)] = false;
            }
            v
        }
        7 => {
            // true at exactly one reachable state, preferably a deep one
            let mut rs: Vec<usize> = (0..n).filter(|s| reach.reachable[*s]).collect();
            rs.sort_by_key(|s| reach.dist[*s]);
            let mut v = vec![false; n];
            if !rs.is_empty() {
                let i = if rng.pct(60) { rs.len() - 1 - rng.below(rs.len().min(3)) } else { rng.below(rs.len()) };
                v[rs[i]] = true;
            }
            v
        }
        _ => {
            // true on states that have a self loop or a back edge (cycle-ish)
            (0..n)
                .map(|s| g.out[s].iter().any(|e| matches!(e, Some(t) if (*t as usize) <= s)))
                .collect()
        }
    }
}

// ---------------------------------------------------------------------------------------------
// O1: reachability.

#[derive(Clone, Debug)]
pub struct Reach {
    pub reachable: Vec<bool>,
    /// BFS distance in transitions from the nearest in-boundary initial state (`u32::MAX` if
    /// unreachable).
    pub dist: Vec<u32>,
    pub count: usize,
    /// Sum over reachable states of in-boundary successor edges, plus in-boundary initial states:
    /// the number of states an exhaustive checker *generates* (including repeats).
    pub generated: usize,
}

impl GraphData {
    pub fn in_boundary_successors(&self, s: u32) -> Vec<u32> {
        self.out[s as usize]
            .iter()
            .filter_map(|e| *e)
            .filter(|t| self.inb[*t as usize])
            .collect()
    }

    pub fn reach(&self) -> Reach {
        let mut reachable = vec![false; self.n];
        let mut dist = vec![u32::MAX; self.n];
        let mut q = VecDeque::new();
        let mut generated = 0usize;
        for &i in &self.inits {
            if self.inb[i as usize] {
                generated += 1;
                if !reachable[i as usize] {
                    reachable[i as usize] = true;
                    dist[i as usize] = 0;
                    q.push_back(i);
                }
            }
        }
        let mut count = 0;
        while let Some(s) = q.pop_front() {
            count += 1;
            for t in self.in_boundary_successors(s) {
                generated += 1;
                if !reachable[t as usize] {
                    reachable[t as usize] = true;
                    dist[t as usize] = dist[s as usize] + 1;
                    q.push_back(t);
                }
            }
        }
        Reach {
            reachable,
            dist,
            count,
            generated,
        }
    }

    /// Every reachable state is reachable by exactly one path.
    pub fn is_forest(&self, reach: &Reach) -> bool {
        let mut indeg = vec![0usize; self.n];
        for &i in &self.inits {
            if self.inb[i as usize] {
                indeg[i as usize] += 1;
            }
        }
        for s in 0..self.n {
            if reach.reachable[s] {
                for t in self.in_boundary_successors(s as u32) {
                    indeg[t as usize] += 1;
                }
            }
        }
        (0..self.n).all(|s| !reach.reachable[s] || indeg[s] == 1)
    }

    // O2: is there a maximal in-boundary path from an in-boundary initial state on which
    // `label` never holds? Maximal = ends in a state without in-boundary successor, or is
    // infinite (reaches a cycle).
    pub fn eventually_counterexample_exists(&self, label: &[bool]) -> bool {
        // explore the sub-graph of states where the label is false
        let mut seen = vec![false; self.n];
        let mut stack = Vec::new();
        for &i in &self.inits {
            let i = i as usize;
            if self.inb[i] && !label[i] && !seen[i] {
                seen[i] = true;
                stack.push(i);
            }
        }
        let mut avoiding = Vec::new();
        while let Some(s) = stack.pop() {
            avoiding.push(s);
            let succ = self.in_boundary_successors(s as u32);
            if succ.is_empty() {
                return true; // terminal reached without ever satisfying the label
            }
            for t in succ {
                let t = t as usize;
                if !label[t] && !seen[t] {
                    seen[t] = true;
                    stack.push(t);
                }
            }
        }
        // cycle detection inside the avoiding sub-graph (iterative three-colour DFS)
        let mut colour = vec![0u8; self.n];
        for &root in &avoiding {
            if colour[root] != 0 {
                continue;
            }
            let mut st: Vec<(usize, Vec<usize>, usize)> = Vec::new();
            let succ = |s: usize| -> Vec<usize> {
                self.in_boundary_successors(s as u32)
                    .into_iter()
                    .map(|t| t as usize)
                    .filter(|t| !label[*t])
                    .collect()
            };
            colour[root] = 1;
            st.push((root, succ(root), 0));
            while let Some((s, ss, i)) = st.last_mut() {
                if *i < ss.len() {
                    let t = ss[*i];
                    *i += 1;
                    if colour[t] == 1 {
                        return true;
                    }
                    if colour[t] == 0 {
                        colour[t] = 1;
                        st.push((t, succ(t), 0));
                    }
                } else {
                    colour[*s] = 2;
                    st.pop();
                }
            }
        }
        false
    }
}

// ---------------------------------------------------------------------------------------------
// O6: witness validation.

pub type PathVec = Vec<(u32, Option<u16>)>;

/// Checks that the path is a real in-boundary execution of the graph. Returns a short reason
/// on failure.
pub fn validate_path(g: &GraphData, path: &PathVec) -> Result<(), String> {
    if path.is_empty() {
        return Err("empty-path".into());
    }
    let (first, _) = path[0];
    if !g.inits.contains(&first) {
        return Err("does-not-start-in-initial-state".into());
    }
    for (i, (s, a)) in path.iter().enumerate() {
        if (*s as usize) >= g.n {
            return Err("unknown-state".into());
        }
        if !g.inb[*s as usize] {
            return Err("leaves-boundary".into());
        }
        match (a, path.get(i + 1)) {
            (Some(a), Some((t, _))) => {
                let es = &g.out[*s as usize];
                if (*a as usize) >= es.len() {
                    return Err("action-not-enabled".into());
                }
                if es[*a as usize] != Some(*t) {
                    return Err("not-a-transition".into());
                }
            }
            (None, None) => {}
            (Some(_), None) => return Err("dangling-action".into()),
            (None, Some(_)) => return Err("missing-action".into()),
        }
    }
    Ok(())
}

/// Expectation-specific end condition of a discovery. `simulation` allows an eventually path to
/// end by closing a cycle.
pub fn validate_discovery(
    g: &GraphData,
    expectation: &Expectation,
    label: &[bool],
    path: &PathVec,
    simulation: bool,
) -> Result<(), String> {
    validate_path(g, path)?;
    let last = path.last().unwrap().0 as usize;
    match expectation {
        Expectation::Always => {
            if label[last] {
                return Err("always-discovery-last-state-satisfies".into());
            }
        }
        Expectation::Sometimes => {
            if !label[last] {
                return Err("sometimes-discovery-last-state-does-not-satisfy".into());
            }
        }
        Expectation::Eventually => {
            if path.iter().any(|(s, _)| label[*s as usize]) {
                return Err("eventually-path-contains-satisfying-state".into());
            }
            let terminal = g.in_boundary_successors(last as u32).is_empty();
            let closes_cycle = path[..path.len() - 1].iter().any(|(s, _)| *s as usize == last);
            if !(terminal || (simulation && closes_cycle)) {
                return Err("eventually-path-not-maximal".into());
            }
        }
    }
    Ok(())
}

pub fn path_to_vec(p: Path<u32, u16>) -> PathVec {
    p.into_vec()
}

pub fn path_json(p: &PathVec) -> Value {
    json!(p.iter().map(|(s, _)| *s).collect::<Vec<_>>())
}

// ---------------------------------------------------------------------------------------------
// Visitor log.

#[derive(Clone, Default)]
pub struct VisitLog(pub Arc<Mutex<Vec<PathVec>>>);

impl stateright::CheckerVisitor<GraphModel> for VisitLog {
    fn visit(&self, _: &GraphModel, path: Path<u32, u16>) {
        self.0.lock().unwrap().push(path.into_vec());
    }
}

impl VisitLog {
    pub fn take(&self) -> Vec<PathVec> {
        std::mem::take(&mut *self.0.lock().unwrap())
    }
}

/// Visitor that records only the last state (cheap on memory for large runs).
#[derive(Clone, Default)]
pub struct StateLog(pub Arc<Mutex<Vec<u32>>>);

impl stateright::CheckerVisitor<GraphModel> for StateLog {
    fn visit(&self, _: &GraphModel, path: Path<u32, u16>) {
        let s = *path.last_state();
        self.0.lock().unwrap().push(s);
    }
}

impl StateLog {
    pub fn take(&self) -> Vec<u32> {
        std::mem::take(&mut *self.0.lock().unwrap())
    }
}
