//! G3: concurrent histories over sequential specifications, and O4: consistency by definition
//! (brute force over all admissible total orders).

use crate::rng::Rng;
use stateright::semantics::register::{Register, RegisterOp, RegisterRet};
use stateright::semantics::vec::{VecOp, VecRet};
use stateright::semantics::write_once_register::{WORegister, WORegisterOp, WORegisterRet};
use stateright::semantics::{
    ConsistencyTester, LinearizabilityTester, SequentialConsistencyTester, SequentialSpec,
};
use std::collections::HashSet;
use std::fmt::Debug;
use std::hash::Hash;

/// What the generators and oracles need from a specification.
pub trait SpecGen: SequentialSpec + Clone + Debug + PartialEq + Hash + Send + Sync + 'static
where
    Self::Op: Clone + Debug + PartialEq + Hash + Send + Sync,
    Self::Ret: Clone + Debug + PartialEq + Hash + Send + Sync,
{
    const NAME: &'static str;
    fn init(rng: &mut Rng) -> Self;
    fn ops() -> Vec<Self::Op>;
    fn rets() -> Vec<Self::Ret>;
}

pub const VALUES: [char; 2] = ['A', 'B'];

impl SpecGen for Register<char> {
    const NAME: &'static str = "Register";
    fn init(rng: &mut Rng) -> Self {
        Register(*rng.pick(&['A', 'B', 'Z']))
    }
    fn ops() -> Vec<Self::Op> {
        vec![RegisterOp::Write('A'), RegisterOp::Write('B'), RegisterOp::Read]
    }
    fn rets() -> Vec<Self::Ret> {
        vec![RegisterRet::WriteOk, RegisterRet::ReadOk('A'), RegisterRet::ReadOk('B'), RegisterRet::ReadOk('Z')]
    }
}

impl SpecGen for WORegister<char> {
    const NAME: &'static str = "WORegister";
    fn init(rng: &mut Rng) -> Self {
        WORegister(*rng.pick(&[None, None, Some('A')]))
    }
    fn ops() -> Vec<Self::Op> {
        vec![WORegisterOp::Write('A'), WORegisterOp::Write('B'), WORegisterOp::Read]
    }
    fn rets() -> Vec<Self::Ret> {
        vec![
            WORegisterRet::WriteOk,
            WORegisterRet::WriteFail,
            WORegisterRet::ReadOk(None),
            WORegisterRet::ReadOk(Some('A')),
            WORegisterRet::ReadOk(Some('B')),
        ]
    }
}

impl SpecGen for Vec<char> {
    const NAME: &'static str = "Vec";
    fn init(rng: &mut Rng) -> Self {
        match rng.below(3) {
            0 => vec![],
            1 => vec!['A'],
            _ => vec!['B', 'A'],
        }
    }
    fn ops() -> Vec<Self::Op> {
        vec![VecOp::Push('A'), VecOp::Push('B'), VecOp::Pop, VecOp::Len]
    }
    fn rets() -> Vec<Self::Ret> {
        vec![
            VecRet::PushOk,
            VecRet::PopOk(None),
            VecRet::PopOk(Some('A')),
            VecRet::PopOk(Some('B')),
            VecRet::LenOk(0),
            VecRet::LenOk(1),
            VecRet::LenOk(2),
            VecRet::LenOk(3),
        ]
    }
}

/// Harness-defined specification: a counter that saturates at 3 (uses the default
/// `is_valid_step`).
#[derive(Clone, Debug, PartialEq, Eq, Hash)]
pub struct Counter(pub u8);
#[derive(Clone, Debug, PartialEq, Eq, Hash)]
pub enum CounterOp {
    Inc,
    Get,
}
#[derive(Clone, Debug, PartialEq, Eq, Hash)]
pub enum CounterRet {
    IncOk,
    Val(u8),
}
impl SequentialSpec for Counter {
    type Op = CounterOp;
    type Ret = CounterRet;
    fn invoke(&mut self, op: &CounterOp) -> CounterRet {
        match op {
            CounterOp::Inc => {
                self.0 = (self.0 + 1).min(3);
                CounterRet::IncOk
            }
            CounterOp::Get => CounterRet::Val(self.0),
        }
    }
}
impl SpecGen for Counter {
    const NAME: &'static str = "Counter";
    fn init(rng: &mut Rng) -> Self {
        Counter(rng.below(2) as u8)
    }
    fn ops() -> Vec<CounterOp> {
        vec![CounterOp::Inc, CounterOp::Get]
    }
    fn rets() -> Vec<CounterRet> {
        vec![CounterRet::IncOk, CounterRet::Val(0), CounterRet::Val(1), CounterRet::Val(2), CounterRet::Val(3)]
    }
}

/// Harness-defined specification: a FIFO queue.
#[derive(Clone, Debug, PartialEq, Eq, Hash)]
pub struct Fifo(pub Vec<char>);
#[derive(Clone, Debug, PartialEq, Eq, Hash)]
pub enum FifoOp {
    Enq(char),
    Deq,
}
#[derive(Clone, Debug, PartialEq, Eq, Hash)]
pub enum FifoRet {
    EnqOk,
    Deq(Option<char>),
}
impl SequentialSpec for Fifo {
    type Op = FifoOp;
    type Ret = FifoRet;
    fn invoke(&mut self, op: &FifoOp) -> FifoRet {
        match op {
            FifoOp::Enq(c) => {
                self.0.push(*c);
                FifoRet::EnqOk
            }
            FifoOp::Deq => FifoRet::Deq(if self.0.is_empty() { None } else { Some(self.0.remove(0)) }),
        }
    }
}
impl SpecGen for Fifo {
    const NAME: &'static str = "Fifo";
    fn init(rng: &mut Rng) -> Self {
        Fifo(if rng.pct(30) { vec!['A'] } else { vec![] })
    }
    fn ops() -> Vec<FifoOp> {
        vec![FifoOp::Enq('A'), FifoOp::Enq('B'), FifoOp::Deq]
    }
    fn rets() -> Vec<FifoRet> {
        vec![FifoRet::EnqOk, FifoRet::Deq(None), FifoRet::Deq(Some('A')), FifoRet::Deq(Some('B'))]
    }
}

// ---------------------------------------------------------------------------------------------

#[derive(Clone, Debug, PartialEq, Hash)]
pub enum Ev<S: SpecGen>
where
    S::Op: Clone + Debug + PartialEq + Hash + Send + Sync,
    S::Ret: Clone + Debug + PartialEq + Hash + Send + Sync,
{
    Inv(u8, S::Op),
    Ret(u8, S::Ret),
}

pub type History<S> = Vec<Ev<S>>;

pub fn history_json<S: SpecGen>(init: &S, h: &History<S>) -> serde_json::Value
where
    S::Op: Clone + Debug + PartialEq + Hash + Send + Sync,
    S::Ret: Clone + Debug + PartialEq + Hash + Send + Sync,
{
    serde_json::json!({
        "spec": S::NAME,
        "init": format!("{:?}", init),
        "events": h.iter().map(|e| match e {
            Ev::Inv(t, op) => format!("t{} invoke {:?}", t, op),
            Ev::Ret(t, r) => format!("t{} return {:?}", t, r),
        }).collect::<Vec<_>>(),
    })
}

/// Is the history well-formed (per thread: alternating invoke/return starting with invoke)?
pub fn well_formed<S: SpecGen>(h: &History<S>) -> bool
where
    S::Op: Clone + Debug + PartialEq + Hash + Send + Sync,
    S::Ret: Clone + Debug + PartialEq + Hash + Send + Sync,
{
    let mut busy = [false; 256];
    for e in h {
        match e {
            Ev::Inv(t, _) => {
                if busy[*t as usize] {
                    return false;
                }
                busy[*t as usize] = true;
            }
            Ev::Ret(t, _) => {
                if !busy[*t as usize] {
                    return false;
                }
                busy[*t as usize] = false;
            }
        }
    }
    true
}

/// A *plausible* history: simulate a random linearization of random operations, then perturb
/// (wrong return value, swapped events) with some probability, so both answers are frequent.
pub fn gen_plausible<S: SpecGen>(rng: &mut Rng, init: &S, threads: usize, max_ops: usize) -> History<S>
where
    S::Op: Clone + Debug + PartialEq + Hash + Send + Sync,
    S::Ret: Clone + Debug + PartialEq + Hash + Send + Sync,
{
    let ops = S::ops();
    let rets = S::rets();
    let n_ops = rng.range(1, max_ops);
    let mut h: History<S> = Vec::new();
    let mut obj = init.clone();
    // state per thread: None idle, Some((op, Option<ret>)) in flight (ret known once linearized)
    let mut flight: Vec<Option<(S::Op, Option<S::Ret>)>> = vec![None; threads];
    let mut started = 0;
    let mut guard = 0;
    while guard < 200 {
        guard += 1;
        let t = rng.below(threads);
        match &mut flight[t] {
            None => {
                if started < n_ops {
                    let op = rng.pick(&ops).clone();
                    h.push(Ev::Inv(t as u8, op.clone()));
                    flight[t] = Some((op, None));
                    started += 1;
                }
            }
            Some((op, ret)) => {
                if ret.is_none() {
                    // linearization point
                    if rng.pct(70) {
                        *ret = Some(obj.invoke(op));
                    }
                } else if rng.pct(60) {
                    h.push(Ev::Ret(t as u8, ret.clone().unwrap()));
                    flight[t] = None;
                }
            }
        }
        if started >= n_ops && flight.iter().all(|f| f.is_none()) {
            break;
        }
        if started >= n_ops && rng.pct(8) {
            break; // leave some operations in flight
        }
    }
    // perturb
    if rng.pct(45) && !h.is_empty() {
        let i = rng.below(h.len());
        if let Ev::Ret(t, _) = &h[i] {
            h[i] = Ev::Ret(*t, rng.pick(&rets).clone());
        }
    }
    if rng.pct(25) && h.len() >= 2 {
        let i = rng.below(h.len() - 1);
        let different_threads = match (&h[i], &h[i + 1]) {
            (Ev::Inv(a, _), Ev::Inv(b, _)) | (Ev::Ret(a, _), Ev::Ret(b, _)) | (Ev::Inv(a, _), Ev::Ret(b, _)) | (Ev::Ret(a, _), Ev::Inv(b, _)) => a != b,
        };
        if different_threads {
            h.swap(i, i + 1);
        }
    }
    h
}

/// Uniformly random well-formed history (returns are arbitrary), possibly with pending ops.
pub fn gen_random<S: SpecGen>(rng: &mut Rng, threads: usize, max_events: usize) -> History<S>
where
    S::Op: Clone + Debug + PartialEq + Hash + Send + Sync,
    S::Ret: Clone + Debug + PartialEq + Hash + Send + Sync,
{
    let ops = S::ops();
    let rets = S::rets();
    let n = rng.range(1, max_events);
    let mut busy = vec![false; threads];
    let mut h = Vec::new();
    for _ in 0..n {
        let t = rng.below(threads);
        if busy[t] {
            h.push(Ev::Ret(t as u8, rng.pick(&rets).clone()));
            busy[t] = false;
        } else {
            h.push(Ev::Inv(t as u8, rng.pick(&ops).clone()));
            busy[t] = true;
        }
    }
    h
}

/// Makes a history ill-formed by inserting a second invocation or an orphan return.
pub fn make_ill_formed<S: SpecGen>(rng: &mut Rng, h: &mut History<S>, threads: usize)
where
    S::Op: Clone + Debug + PartialEq + Hash + Send + Sync,
    S::Ret: Clone + Debug + PartialEq + Hash + Send + Sync,
{
    let ops = S::ops();
    let rets = S::rets();
    for _ in 0..20 {
        let at = rng.below(h.len() + 1);
        let t = rng.below(threads + 1) as u8; // possibly a thread never seen
        let ev: Ev<S> = if rng.pct(50) { Ev::Inv(t, rng.pick(&ops).clone()) } else { Ev::Ret(t, rng.pick(&rets).clone()) };
        h.insert(at, ev);
        if !well_formed(h) {
            return;
        }
        h.remove(at);
    }
    // fall back: orphan return at the very beginning
    h.insert(0, Ev::Ret(0, rets[0].clone()));
}

// ---------------------------------------------------------------------------------------------
// O4: consistency by definition.

#[derive(Clone, Debug)]
pub struct OpInst<S: SpecGen>
where
    S::Op: Clone + Debug + PartialEq + Hash + Send + Sync,
    S::Ret: Clone + Debug + PartialEq + Hash + Send + Sync,
{
    pub thread: u8,
    pub inv: usize,
    pub ret: Option<(usize, S::Ret)>,
    pub op: S::Op,
}

pub fn op_instances<S: SpecGen>(h: &History<S>) -> Vec<OpInst<S>>
where
    S::Op: Clone + Debug + PartialEq + Hash + Send + Sync,
    S::Ret: Clone + Debug + PartialEq + Hash + Send + Sync,
{
    let mut ops: Vec<OpInst<S>> = Vec::new();
    let mut open: std::collections::HashMap<u8, usize> = std::collections::HashMap::new();
    for (i, e) in h.iter().enumerate() {
        match e {
            Ev::Inv(t, op) => {
                open.insert(*t, ops.len());
                ops.push(OpInst { thread: *t, inv: i, ret: None, op: op.clone() });
            }
            Ev::Ret(t, r) => {
                let idx = open.remove(t).expect("well-formed history expected");
                ops[idx].ret = Some((i, r.clone()));
            }
        }
    }
    ops
}

#[derive(Clone, Copy, PartialEq, Eq, Debug)]
pub enum Mode {
    Linearizable,
    SequentiallyConsistent,
}

/// May `b` be placed now, given the set of already placed operations?
fn allowed<S: SpecGen>(ops: &[OpInst<S>], placed: u32, b: usize, mode: Mode) -> bool
where
    S::Op: Clone + Debug + PartialEq + Hash + Send + Sync,
    S::Ret: Clone + Debug + PartialEq + Hash + Send + Sync,
{
    for (a, oa) in ops.iter().enumerate() {
        if a == b || placed & (1 << a) != 0 {
            continue;
        }
        // a is not placed yet: must a precede b?
        if oa.thread == ops[b].thread && oa.inv < ops[b].inv {
            return false; // program order
        }
        if mode == Mode::Linearizable {
            if let Some((r, _)) = &oa.ret {
                if *r < ops[b].inv {
                    // a returned before b was invoked. A *pending* a can never be required.
                    return false;
                }
            }
        }
    }
    true
}

/// Brute force: does an admissible total order exist? (`steps` bounds the search; `None` =
/// budget exhausted → inconclusive.)
pub fn consistent_by_definition<S: SpecGen>(init: &S, h: &History<S>, mode: Mode) -> Option<bool>
where
    S::Op: Clone + Debug + PartialEq + Hash + Send + Sync,
    S::Ret: Clone + Debug + PartialEq + Hash + Send + Sync,
{
    let ops = op_instances(h);
    if ops.len() > 20 {
        return None;
    }
    let completed: u32 = ops.iter().enumerate().filter(|(_, o)| o.ret.is_some()).map(|(i, _)| 1u32 << i).sum();
    let mut dead: HashSet<(u32, u64)> = HashSet::new();
    let mut budget = 2_000_000u64;
    fn rec<S: SpecGen>(
        ops: &[OpInst<S>],
        completed: u32,
        placed: u32,
        obj: &S,
        mode: Mode,
        dead: &mut HashSet<(u32, u64)>,
        budget: &mut u64,
    ) -> Option<bool>
    where
        S::Op: Clone + Debug + PartialEq + Hash + Send + Sync,
        S::Ret: Clone + Debug + PartialEq + Hash + Send + Sync,
    {
        if placed & completed == completed {
            return Some(true);
        }
        if *budget == 0 {
            return None;
        }
        *budget -= 1;
        let key = (placed, crate::ctx::hash_of(obj));
        if dead.contains(&key) {
            return Some(false);
        }
        for b in 0..ops.len() {
            if placed & (1 << b) != 0 || !allowed(ops, placed, b, mode) {
                continue;
            }
            let mut o = obj.clone();
            let r = o.invoke(&ops[b].op);
            if let Some((_, expected)) = &ops[b].ret {
                if &r != expected {
                    continue;
                }
            }
            match rec(ops, completed, placed | (1 << b), &o, mode, dead, budget) {
                Some(true) => return Some(true),
                None => return None,
                Some(false) => {}
            }
        }
        dead.insert(key);
        Some(false)
    }
    rec(&ops, completed, 0, init, mode, &mut dead, &mut budget)
}

/// Is `ser` a legal, order-respecting arrangement of all completed plus some pending operations?
pub fn valid_serialization<S: SpecGen>(init: &S, h: &History<S>, ser: &[(S::Op, S::Ret)], mode: Mode) -> Result<(), String>
where
    S::Op: Clone + Debug + PartialEq + Hash + Send + Sync,
    S::Ret: Clone + Debug + PartialEq + Hash + Send + Sync,
{
    // legality
    let mut obj = init.clone();
    for (i, (op, ret)) in ser.iter().enumerate() {
        if &obj.invoke(op) != ret {
            return Err(format!("serialization-not-legal-at-{}", i));
        }
    }
    let ops = op_instances(h);
    let completed: u32 = ops.iter().enumerate().filter(|(_, o)| o.ret.is_some()).map(|(i, _)| 1u32 << i).sum();
    // match positions to operation instances respecting the order constraints
    fn rec<S: SpecGen>(ops: &[OpInst<S>], ser: &[(S::Op, S::Ret)], i: usize, placed: u32, completed: u32, mode: Mode) -> bool
    where
        S::Op: Clone + Debug + PartialEq + Hash + Send + Sync,
        S::Ret: Clone + Debug + PartialEq + Hash + Send + Sync,
    {
        if i == ser.len() {
            return placed & completed == completed;
        }
        for b in 0..ops.len() {
            if placed & (1 << b) != 0 || ops[b].op != ser[i].0 {
                continue;
            }
            if let Some((_, r)) = &ops[b].ret {
                if r != &ser[i].1 {
                    continue;
                }
            }
            if !allowed(ops, placed, b, mode) {
                continue;
            }
            if rec(ops, ser, i + 1, placed | (1 << b), completed, mode) {
                return true;
            }
        }
        false
    }
    if rec(&ops, ser, 0, 0, completed, mode) {
        Ok(())
    } else {
        Err("serialization-is-not-an-order-respecting-arrangement-of-the-history".into())
    }
}

// ---------------------------------------------------------------------------------------------
// Uniform access to the two testers.

pub trait TesterApi<S: SpecGen>: ConsistencyTester<u8, S> + Clone + Debug + PartialEq + Hash + Send
where
    S::Op: Clone + Debug + PartialEq + Hash + Send + Sync,
    S::Ret: Clone + Debug + PartialEq + Hash + Send + Sync,
{
    const MODE: Mode;
    const NAME: &'static str;
    fn fresh(init: S) -> Self;
    fn serialization(&self) -> Option<Vec<(S::Op, S::Ret)>>;
    fn length(&self) -> usize;
}

impl<S: SpecGen> TesterApi<S> for LinearizabilityTester<u8, S>
where
    S::Op: Clone + Debug + PartialEq + Hash + Send + Sync,
    S::Ret: Clone + Debug + PartialEq + Hash + Send + Sync,
{
    const MODE: Mode = Mode::Linearizable;
    const NAME: &'static str = "linearizability";
    fn fresh(init: S) -> Self {
        LinearizabilityTester::new(init)
    }
    fn serialization(&self) -> Option<Vec<(S::Op, S::Ret)>> {
        self.serialized_history()
    }
    fn length(&self) -> usize {
        self.len()
    }
}

impl<S: SpecGen> TesterApi<S> for SequentialConsistencyTester<u8, S>
where
    S::Op: Clone + Debug + PartialEq + Hash + Send + Sync,
    S::Ret: Clone + Debug + PartialEq + Hash + Send + Sync,
{
    const MODE: Mode = Mode::SequentiallyConsistent;
    const NAME: &'static str = "sequential_consistency";
    fn fresh(init: S) -> Self {
        SequentialConsistencyTester::new(init)
    }
    fn serialization(&self) -> Option<Vec<(S::Op, S::Ret)>> {
        self.serialized_history()
    }
    fn length(&self) -> usize {
        self.len()
    }
}

/// Feeds a history to a tester; returns the index of the first event that was rejected.
pub fn feed<S: SpecGen, T: TesterApi<S>>(tester: &mut T, h: &[Ev<S>]) -> Option<usize>
where
    S::Op: Clone + Debug + PartialEq + Hash + Send + Sync,
    S::Ret: Clone + Debug + PartialEq + Hash + Send + Sync,
{
    feed_with(tester, h, false)
}

/// As `feed`; with `invret` an invocation that is immediately followed by its own return is
/// recorded through the convenience call `on_invret` (one call for both events). A rejection of
/// that call is attributed to the invocation (the only event of such a pair that can make a
/// history ill-formed).
pub fn feed_with<S: SpecGen, T: TesterApi<S>>(tester: &mut T, h: &[Ev<S>], invret: bool) -> Option<usize>
where
    S::Op: Clone + Debug + PartialEq + Hash + Send + Sync,
    S::Ret: Clone + Debug + PartialEq + Hash + Send + Sync,
{
    let mut first_err = None;
    let mut i = 0;
    while i < h.len() {
        let (ok, used) = match (&h[i], h.get(i + 1)) {
            (Ev::Inv(t, op), Some(Ev::Ret(t2, r))) if invret && t == t2 => (tester.on_invret(*t, op.clone(), r.clone()).is_ok(), 2),
            (Ev::Inv(t, op), _) => (tester.on_invoke(*t, op.clone()).is_ok(), 1),
            (Ev::Ret(t, r), _) => (tester.on_return(*t, r.clone()).is_ok(), 1),
        };
        if !ok && first_err.is_none() {
            first_err = Some(i);
        }
        i += used;
    }
    first_err
}

/// Does the history contain an invocation immediately followed by its own return?
pub fn has_adjacent_pair<S: SpecGen>(h: &[Ev<S>]) -> bool
where
    S::Op: Clone + Debug + PartialEq + Hash + Send + Sync,
    S::Ret: Clone + Debug + PartialEq + Hash + Send + Sync,
{
    h.windows(2).any(|w| matches!((&w[0], &w[1]), (Ev::Inv(a, _), Ev::Ret(b, _)) if a == b))
}

/// Index of the first event that makes the history ill-formed.
pub fn first_ill_formed<S: SpecGen>(h: &History<S>) -> Option<usize>
where
    S::Op: Clone + Debug + PartialEq + Hash + Send + Sync,
    S::Ret: Clone + Debug + PartialEq + Hash + Send + Sync,
{
    (1..=h.len()).find(|i| !well_formed(&h[..*i].to_vec())).map(|i| i - 1)
}

/// Enumerates every well-formed history with exactly `len` events over `threads` threads.
pub fn enumerate_histories<S: SpecGen>(threads: usize, len: usize, ops: &[S::Op], rets: &[S::Ret], f: &mut dyn FnMut(&History<S>))
where
    S::Op: Clone + Debug + PartialEq + Hash + Send + Sync,
    S::Ret: Clone + Debug + PartialEq + Hash + Send + Sync,
{
    fn rec<S: SpecGen>(
        threads: usize,
        len: usize,
        ops: &[S::Op],
        rets: &[S::Ret],
        h: &mut History<S>,
        busy: &mut Vec<bool>,
        used: usize,
        f: &mut dyn FnMut(&History<S>),
    ) where
        S::Op: Clone + Debug + PartialEq + Hash + Send + Sync,
        S::Ret: Clone + Debug + PartialEq + Hash + Send + Sync,
    {
        if h.len() == len {
            f(h);
            return;
        }
        // symmetry breaking: a fresh thread may only be the lowest unused one
        for t in 0..threads.min(used + 1) {
            if busy[t] {
                for r in rets {
                    h.push(Ev::Ret(t as u8, r.clone()));
                    busy[t] = false;
                    rec(threads, len, ops, rets, h, busy, used, f);
                    busy[t] = true;
                    h.pop();
                }
            } else {
                for op in ops {
                    h.push(Ev::Inv(t as u8, op.clone()));
                    busy[t] = true;
                    rec(threads, len, ops, rets, h, busy, used.max(t + 1), f);
                    busy[t] = false;
                    h.pop();
                }
            }
        }
    }
    let mut h = Vec::new();
    let mut busy = vec![false; threads];
    rec(threads, len, ops, rets, &mut h, &mut busy, 0, f);
}
