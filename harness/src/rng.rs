//! Small self-contained PRNG (splitmix64 seeding + xoshiro256**). Independent of the `rand`
//! crate so that workloads are reproducible whatever version stateright pulls in.

#[derive(Clone, Debug)]
pub struct Rng {
    s: [u64; 4],
}

pub fn splitmix(x: &mut u64) -> u64 {
    *x = x.wrapping_add(0x9E37_79B9_7F4A_7C15);
    let mut z = *x;
    z = (z ^ (z >> 30)).wrapping_mul(0xBF58_476D_1CE4_E5B9);
    z = (z ^ (z >> 27)).wrapping_mul(0x94D0_49BB_1331_11EB);
    z ^ (z >> 31)
}

/// Mixes several words into one (for deriving per-case seeds).
pub fn mix(words: &[u64]) -> u64 {
    let mut acc = 0x243F_6A88_85A3_08D3u64;
    for w in words {
        acc ^= *w;
        let mut x = acc;
        acc = splitmix(&mut x).rotate_left(17) ^ 0x1319_8A2E_0370_7344;
    }
    acc
}

pub fn str_hash(s: &str) -> u64 {
    let mut h = 0xcbf2_9ce4_8422_2325u64;
    for b in s.bytes() {
        h ^= b as u64;
        h = h.wrapping_mul(0x100_0000_01b3);
    }
    h
}

impl Rng {
    pub fn new(seed: u64) -> Self {
        let mut x = seed;
        let s = [
            splitmix(&mut x),
            splitmix(&mut x),
            splitmix(&mut x),
            splitmix(&mut x),
        ];
        Rng { s }
    }

    pub fn next_u64(&mut self) -> u64 {
        let result = self.s[1].wrapping_mul(5).rotate_left(7).wrapping_mul(9);
        let t = self.s[1] << 17;
        self.s[2] ^= self.s[0];
        self.s[3] ^= self.s[1];
        self.s[1] ^= self.s[2];
        self.s[0] ^= self.s[3];
        self.s[2] ^= t;
        self.s[3] = self.s[3].rotate_left(45);
        result
    }

    /// Uniform in `0..n` (n > 0).
    pub fn below(&mut self, n: usize) -> usize {
        debug_assert!(n > 0);
        (self.next_u64() % (n as u64)) as usize
    }

    /// Uniform in `lo..=hi`.
    pub fn range(&mut self, lo: usize, hi: usize) -> usize {
        lo + self.below(hi - lo + 1)
    }

    /// True with probability `num/den`.
    pub fn chance(&mut self, num: u32, den: u32) -> bool {
        (self.next_u64() % den as u64) < num as u64
    }

    /// Probability in percent.
    pub fn pct(&mut self, p: u32) -> bool {
        self.chance(p, 100)
    }

    pub fn pick<'a, T>(&mut self, xs: &'a [T]) -> &'a T {
        &xs[self.below(xs.len())]
    }

    pub fn shuffle<T>(&mut self, xs: &mut [T]) {
        for i in (1..xs.len()).rev() {
            let j = self.below(i + 1);
            xs.swap(i, j);
        }
    }

    pub fn fork(&mut self) -> Rng {
        Rng::new(self.next_u64())
    }
}
