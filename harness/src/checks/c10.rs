//! C10 — symmetry reduction preserves verdicts and representatives stay in their orbit.

use crate::ctx::{guarded, hash_of, Case, Ctx};
use crate::rng::Rng;
use serde_json::{json, Value};
use stateright::actor::{
    Actor, ActorModel, ActorModelState, Envelope, Id, LossyNetwork, Network, Out, RandomChoices, Timers,
};
use stateright::util::{DenseNatMap, HashableHashMap, HashableHashSet};
use stateright::{Checker, Expectation, Model, Path, Property, Representative, Rewrite, RewritePlan};
use std::borrow::Cow;
use std::collections::{BTreeMap, BTreeSet, VecDeque};
use std::sync::{Arc, Mutex};
use std::time::{Duration, Instant};

// ---------------------------------------------------------------------------------------------
// (c) plans built by sorting, and the structural Rewrite impls.

/// Independently computed stable sorting permutation: `pos[i]` = new index of old index `i`.
fn stable_positions<T: Ord>(values: &[T]) -> Vec<usize> {
    let mut idx: Vec<usize> = (0..values.len()).collect();
    // insertion sort: obviously stable, independent of the standard library's sort
    for i in 1..idx.len() {
        let mut j = i;
        while j > 0 && values[idx[j - 1]] > values[idx[j]] {
            idx.swap(j - 1, j);
            j -= 1;
        }
    }
    let mut pos = vec![0; values.len()];
    for (new, old) in idx.iter().enumerate() {
        pos[*old] = new;
    }
    pos
}

fn plan_case(case: &mut Case) {
    // mostly tiny vectors; every fifth case a long one (sorting algorithms switch strategy with
    // the length, and stability only shows with ties)
    let n = if case.k % 5 == 4 { case.rng.range(20, 300) } else { case.rng.range(1, 6) };
    let alphabet = if n > 6 { case.rng.range(2, 12) } else { case.rng.range(1, 4) }; // small alphabets give many ties
    let values: Vec<u8> = (0..n).map(|_| case.rng.below(alphabet) as u8).collect();
    let ties = values.iter().collect::<BTreeSet<_>>().len() < n;
    case.distinct(hash_of(&values), ties && n >= 3);
    case.sample(|| json!({"values_to_sort": values}));
    let wit = |extra: Value| json!({"values_to_sort": values, "detail": extra});
    let pos = stable_positions(&values);
    let plan = RewritePlan::<Id, _>::from_values_to_sort(&values);
    case.add("plans_built", 1);
    // the plan maps every index to its stable-sort position
    for i in 0..n {
        let got = usize::from(plan.rewrite(&Id::from(i)));
        if got != pos[i] {
            case.violation("C10/plan/from_values_to_sort-is-not-the-stable-sorting-permutation", wit(json!({"index": i, "got": got, "expected": pos[i]})));
            return;
        }
    }
    let map = |i: Id| Id::from(pos[usize::from(i)]);
    // reindex: element i moves to pos[i] and is rewritten
    let ids: Vec<Id> = (0..n).map(|_| Id::from(case.rng.below(n))).collect();
    let mut expected = vec![Id::from(0); n];
    for i in 0..n {
        expected[pos[i]] = map(ids[i]);
    }
    if plan.reindex(&ids) != expected {
        case.violation("C10/plan/reindex-disagrees-with-the-permutation", wit(json!({"input": format!("{:?}", ids), "got": format!("{:?}", plan.reindex(&ids)), "expected": format!("{:?}", expected)})));
        return;
    }
    let mut sorted = values.clone();
    sorted.sort();
    if plan.reindex(&values) != sorted {
        case.violation("C10/plan/reindex-of-the-sorted-values-is-not-sorted", wit(json!({"got": plan.reindex(&values)})));
        return;
    }
    let dq: VecDeque<Id> = ids.iter().copied().collect();
    if plan.reindex(&dq) != expected.iter().copied().collect::<VecDeque<_>>() {
        case.violation("C10/plan/reindex-vecdeque-disagrees", wit(json!({})));
        return;
    }
    // structural Rewrite impls commute with the permutation
    macro_rules! expect_eq {
        ($what:expr, $got:expr, $exp:expr) => {
            case.add("rewrites_compared", 1);
            let (got_value, exp_value) = ($got, $exp);
            if got_value != exp_value {
                case.violation(&format!("C10/rewrite/{}-does-not-commute-with-the-permutation", $what), wit(json!({"got": format!("{:?}", got_value), "expected": format!("{:?}", exp_value)})));
                return;
            }
        };
    }
    expect_eq!("vec", ids.rewrite(&plan), ids.iter().map(|i| map(*i)).collect::<Vec<_>>());
    expect_eq!("vecdeque", dq.rewrite(&plan), ids.iter().map(|i| map(*i)).collect::<VecDeque<_>>());
    // the same queue with a physically wrapped ring buffer (front removals followed by pushes, as
    // a queue that is consumed and refilled looks): contents and order are what matters
    let wrapped = |items: &[Id]| -> VecDeque<Id> {
        let mut q: VecDeque<Id> = VecDeque::with_capacity(items.len().max(1));
        let cap = q.capacity();
        let filler = cap - cap / 3; // push, then pop from the front, so that head sits mid-buffer
        for _ in 0..filler {
            q.push_back(Id::from(0));
        }
        for _ in 0..filler {
            q.pop_front();
        }
        for i in items {
            q.push_back(*i);
        }
        q
    };
    let wdq = wrapped(&ids);
    if wdq.as_slices().1.len() > 0 {
        case.add("wrapped_deques_rewritten", 1);
    }
    expect_eq!("vecdeque-wrapped", wdq.rewrite(&plan), ids.iter().map(|i| map(*i)).collect::<VecDeque<_>>());
    let bs: BTreeSet<Id> = ids.iter().copied().collect();
    expect_eq!("btreeset", bs.rewrite(&plan), bs.iter().map(|i| map(*i)).collect::<BTreeSet<_>>());
    // the write-once register harness: server states and messages carry whatever the wrapped
    // server puts in them (here: ids), client states and request ids carry none
    {
        use stateright::actor::write_once_register::{WORegisterActorState, WORegisterMsg};
        type St = WORegisterActorState<Vec<Id>, u64>;
        let server: St = WORegisterActorState::Server(ids.clone());
        expect_eq!("wo-register-server-state", server.rewrite(&plan), WORegisterActorState::Server(ids.iter().map(|i| map(*i)).collect::<Vec<_>>()));
        let client: St = WORegisterActorState::Client { awaiting: Some(7), op_count: 3 };
        expect_eq!("wo-register-client-state", client.rewrite(&plan), client.clone());
        type M = WORegisterMsg<u64, Id, Vec<Id>>;
        let first = ids[0];
        let msgs: Vec<(M, M)> = vec![
            (WORegisterMsg::Internal(ids.clone()), WORegisterMsg::Internal(ids.iter().map(|i| map(*i)).collect())),
            (WORegisterMsg::Put(5, first), WORegisterMsg::Put(5, map(first))),
            (WORegisterMsg::Get(6), WORegisterMsg::Get(6)),
            (WORegisterMsg::PutOk(5), WORegisterMsg::PutOk(5)),
            (WORegisterMsg::PutFail(5), WORegisterMsg::PutFail(5)),
            (WORegisterMsg::GetOk(6, first), WORegisterMsg::GetOk(6, map(first))),
        ];
        for (m, want) in msgs {
            expect_eq!("wo-register-msg", m.rewrite(&plan), want);
        }
    }
    let bm: BTreeMap<Id, Id> = ids.iter().enumerate().map(|(i, v)| (Id::from(i), *v)).collect();
    expect_eq!("btreemap", bm.rewrite(&plan), bm.iter().map(|(k, v)| (map(*k), map(*v))).collect::<BTreeMap<_, _>>());
    let hs: HashableHashSet<Id> = ids.iter().copied().collect();
    expect_eq!("hashable-set", hs.rewrite(&plan), ids.iter().map(|i| map(*i)).collect::<HashableHashSet<Id>>());
    let hm: HashableHashMap<Id, u8> = ids.iter().enumerate().map(|(i, v)| (*v, i as u8 % 2)).collect();
    expect_eq!("hashable-map", hm.rewrite(&plan), hm.iter().map(|(k, v)| (map(*k), *v)).collect::<HashableHashMap<Id, u8>>());
    let opt = if case.rng.pct(50) { Some(ids[0]) } else { None };
    expect_eq!("option", opt.rewrite(&plan), opt.map(map));
    let tup = (ids[0], ids[n - 1]);
    expect_eq!("tuple", tup.rewrite(&plan), (map(tup.0), map(tup.1)));
    let env = Envelope { src: ids[0], dst: ids[n - 1], msg: ids[n / 2] };
    expect_eq!("envelope", env.rewrite(&plan), Envelope { src: map(env.src), dst: map(env.dst), msg: map(env.msg) });
    let arc = Arc::new(ids.clone());
    expect_eq!("arc", (*arc.rewrite(&plan)).clone(), ids.iter().map(|i| map(*i)).collect::<Vec<_>>());
    // networks of all three kinds
    let envs: Vec<Envelope<Id>> = (0..case.rng.below(5))
        .map(|_| Envelope { src: Id::from(case.rng.below(n)), dst: Id::from(case.rng.below(n)), msg: Id::from(case.rng.below(n)) })
        .collect();
    let menv = |e: &Envelope<Id>| Envelope { src: map(e.src), dst: map(e.dst), msg: map(e.msg) };
    let last = envs.first().cloned();
    expect_eq!("network-duplicating",
        Network::new_unordered_duplicating_with_last_msg(envs.clone(), last.clone()).rewrite(&plan),
        Network::new_unordered_duplicating_with_last_msg(envs.iter().map(menv), last.as_ref().map(menv)));
    expect_eq!("network-nonduplicating",
        Network::new_unordered_nonduplicating(envs.clone()).rewrite(&plan),
        Network::new_unordered_nonduplicating(envs.iter().map(menv)));
    // ordered: rewriting keeps the order inside each flow
    let ordered = Network::new_ordered(envs.clone());
    let mut flows: BTreeMap<(Id, Id), VecDeque<Id>> = BTreeMap::new();
    for e in &envs {
        flows.entry((map(e.src), map(e.dst))).or_default().push_back(map(e.msg));
    }
    // (two flows are never merged: the map is a bijection)
    expect_eq!("network-ordered", ordered.rewrite(&plan), Network::Ordered(flows.clone()));
    // ... also when the flows' queues are wrapped ring buffers
    if let Network::Ordered(m) = &ordered {
        let rewrapped: BTreeMap<(Id, Id), VecDeque<Id>> = m.iter().map(|(k, q)| (*k, wrapped(&q.iter().copied().collect::<Vec<_>>()))).collect();
        expect_eq!("network-ordered-wrapped-queues", Network::Ordered(rewrapped).rewrite(&plan), Network::Ordered(flows));
    }
    // dense map keyed by the rewritten type: value i moves to pos[i]
    let dm: DenseNatMap<Id, Id> = ids.iter().copied().collect();
    let mut dexp = vec![Id::from(0); n];
    for i in 0..n {
        dexp[pos[i]] = map(ids[i]);
    }
    match guarded(|| dm.rewrite(&plan)) {
        Ok(got) => {
            expect_eq!("dense-nat-map", got, dexp.into_iter().collect::<DenseNatMap<Id, Id>>());
        }
        Err(msg) => {
            case.violation("C10/rewrite/dense-nat-map-panics", wit(json!({"panic": msg})));
        }
    }
}

// ---------------------------------------------------------------------------------------------
// (b) representative() of actor-system states.

#[derive(Clone, Debug, PartialEq, Eq, Hash, PartialOrd, Ord)]
pub struct SState {
    pub phase: u8,
    pub heard: Vec<Id>,
    pub chosen: Option<Id>,
}
impl Rewrite<Id> for SState {
    fn rewrite<S>(&self, plan: &RewritePlan<Id, S>) -> Self {
        SState { phase: self.phase, heard: self.heard.rewrite(plan), chosen: self.chosen.rewrite(plan) }
    }
}

#[derive(Clone, Debug, PartialEq, Eq, Hash, PartialOrd, Ord)]
pub enum SMsg {
    Hello(Id),
    Ack(Id),
}
impl Rewrite<Id> for SMsg {
    fn rewrite<S>(&self, plan: &RewritePlan<Id, S>) -> Self {
        match self {
            SMsg::Hello(i) => SMsg::Hello(i.rewrite(plan)),
            SMsg::Ack(i) => SMsg::Ack(i.rewrite(plan)),
        }
    }
}

#[derive(Clone, Debug, PartialEq, Eq, Hash, PartialOrd, Ord)]
pub struct SRand(pub Id);
impl Rewrite<Id> for SRand {
    fn rewrite<S>(&self, plan: &RewritePlan<Id, S>) -> Self {
        SRand(self.0.rewrite(plan))
    }
}

#[derive(Clone, Debug, PartialEq, Eq, Hash, PartialOrd, Ord)]
pub struct SHist(pub Vec<Id>);
impl Rewrite<Id> for SHist {
    fn rewrite<S>(&self, plan: &RewritePlan<Id, S>) -> Self {
        SHist(self.0.rewrite(plan))
    }
}

/// Identical, identity-oblivious actors: every actor greets all peers, acknowledges greetings,
/// optionally re-greets on a timer and optionally picks a random peer.
#[derive(Clone, Debug, PartialEq, Eq, Hash)]
pub struct SymActor {
    pub n: usize,
    pub use_timer: bool,
    pub use_random: bool,
    pub max_phase: u8,
    pub heard_bound: usize,
}

impl SymActor {
    fn peers(&self, me: Id) -> Vec<Id> {
        (0..self.n).map(Id::from).filter(|p| *p != me).collect()
    }
}

impl Actor for SymActor {
    type Msg = SMsg;
    type Timer = u8;
    type Random = SRand;
    type State = SState;
    fn on_start(&self, id: Id, o: &mut Out<Self>) -> SState {
        for p in self.peers(id) {
            o.send(p, SMsg::Hello(id));
        }
        if self.use_timer {
            o.set_timer(0, Duration::ZERO..Duration::ZERO);
        }
        if self.use_random && self.n >= 2 {
            o.choose_random("pick", self.peers(id).into_iter().map(SRand).collect());
        }
        SState { phase: 0, heard: Vec::new(), chosen: None }
    }
    fn on_msg(&self, id: Id, state: &mut Cow<SState>, src: Id, msg: SMsg, o: &mut Out<Self>) {
        match msg {
            SMsg::Hello(who) => {
                if !state.heard.contains(&who) && state.heard.len() < self.heard_bound {
                    let st = state.to_mut();
                    // insertion order is kept (no sorting by Id): the model must be literally
                    // invariant under renaming of identities
                    st.heard.push(who);
                    o.send(src, SMsg::Ack(id));
                }
            }
            SMsg::Ack(_) => {
                if state.phase < self.max_phase {
                    state.to_mut().phase += 1;
                }
            }
        }
    }
    fn on_timeout(&self, id: Id, state: &mut Cow<SState>, _timer: &u8, o: &mut Out<Self>) {
        if state.phase == 0 {
            for p in self.peers(id) {
                o.send(p, SMsg::Hello(id));
            }
            state.to_mut().phase = 1.min(self.max_phase);
        }
    }
    fn on_random(&self, _id: Id, state: &mut Cow<SState>, random: &SRand, _o: &mut Out<Self>) {
        state.to_mut().chosen = Some(random.0);
    }
}

type SModelState = ActorModelState<SymActor, SHist>;
type SModel = ActorModel<SymActor, usize, SHist>;

/// Full structural description of a state (every public component).
#[derive(Clone, Debug, PartialEq, Eq, PartialOrd, Ord, Hash)]
pub struct SKey {
    actors: Vec<SState>,
    net: String,
    timers: Vec<BTreeSet<u8>>,
    randoms: Vec<BTreeMap<String, Vec<SRand>>>,
    crashed: Vec<bool>,
    history: SHist,
}

fn net_key(n: &Network<SMsg>) -> String {
    match n {
        Network::Ordered(m) => format!("ordered{:?}", m),
        Network::UnorderedNonDuplicating(m) => {
            let mut v: Vec<_> = m.iter().map(|(e, c)| (e.clone(), *c)).collect();
            v.sort();
            format!("nondup{:?}", v)
        }
        Network::UnorderedDuplicating(s, last) => {
            let mut v: Vec<_> = s.iter().cloned().collect();
            v.sort();
            format!("dup{:?}/{:?}", v, last)
        }
    }
}

fn skey(s: &SModelState) -> SKey {
    SKey {
        actors: s.actor_states.iter().map(|a| (**a).clone()).collect(),
        net: net_key(&s.network),
        timers: s.timers_set.iter().map(|t| t.iter().copied().collect()).collect(),
        randoms: s.random_choices.iter().map(|r| r.map.iter().map(|(k, v)| (k.clone(), v.clone())).collect()).collect(),
        crashed: s.crashed.clone(),
        history: s.history.clone(),
    }
}

/// Applies the permutation `pos` (old index -> new index) to every component, written without
/// stateright's Rewrite impls.
fn permute(s: &SModelState, pos: &[usize]) -> SModelState {
    let n = pos.len();
    let m = |i: Id| if usize::from(i) < n { Id::from(pos[usize::from(i)]) } else { i };
    let mstate = |a: &SState| {
        let heard: Vec<Id> = a.heard.iter().map(|i| m(*i)).collect();
        SState { phase: a.phase, heard, chosen: a.chosen.map(m) }
    };
    let mmsg = |x: &SMsg| match x {
        SMsg::Hello(i) => SMsg::Hello(m(*i)),
        SMsg::Ack(i) => SMsg::Ack(m(*i)),
    };
    let menv = |e: &Envelope<SMsg>| Envelope { src: m(e.src), dst: m(e.dst), msg: mmsg(&e.msg) };
    let mut actor_states = s.actor_states.clone();
    let mut timers_set = s.timers_set.clone();
    let mut random_choices = s.random_choices.clone();
    let mut crashed = s.crashed.clone();
    for i in 0..n {
        actor_states[pos[i]] = Arc::new(mstate(&s.actor_states[i]));
        timers_set[pos[i]] = s.timers_set[i].clone();
        let mut rc = RandomChoices::default();
        for (k, v) in s.random_choices[i].map.iter() {
            rc.insert(k.clone(), v.iter().map(|r| SRand(m(r.0))).collect());
        }
        random_choices[pos[i]] = rc;
        crashed[pos[i]] = s.crashed[i];
    }
    let network = match &s.network {
        Network::Ordered(flows) => {
            let mut out: BTreeMap<(Id, Id), VecDeque<SMsg>> = BTreeMap::new();
            for ((a, b), q) in flows {
                out.insert((m(*a), m(*b)), q.iter().map(mmsg).collect());
            }
            Network::Ordered(out)
        }
        Network::UnorderedNonDuplicating(ms) => {
            let mut envs = Vec::new();
            for (e, c) in ms.iter() {
                for _ in 0..*c {
                    envs.push(menv(e));
                }
            }
            Network::new_unordered_nonduplicating(envs)
        }
        Network::UnorderedDuplicating(set, last) => {
            Network::new_unordered_duplicating_with_last_msg(set.iter().map(menv).collect::<Vec<_>>(), last.as_ref().map(menv))
        }
    };
    ActorModelState { actor_states, network, timers_set, random_choices, crashed, history: SHist(s.history.0.iter().map(|i| m(*i)).collect()) }
}

fn permutations(n: usize) -> Vec<Vec<usize>> {
    if n == 0 {
        return vec![vec![]];
    }
    let mut out = Vec::new();
    for p in permutations(n - 1) {
        for i in 0..n {
            let mut q = p.clone();
            q.insert(i, n - 1);
            out.push(q);
        }
    }
    out
}

fn gen_sstate(rng: &mut Rng) -> SModelState {
    let n = rng.range(1, 4);
    let id = |rng: &mut Rng| Id::from(rng.below(n));
    // few distinct local states => ties in the sort
    let palette: Vec<SState> = (0..rng.range(1, 3))
        .map(|_| {
            let mut heard: Vec<Id> = (0..rng.below(3)).map(|_| id(rng)).collect();
            heard.sort();
            heard.dedup();
            SState { phase: rng.below(2) as u8, heard, chosen: if rng.pct(30) { Some(id(rng)) } else { None } }
        })
        .collect();
    let msg = |rng: &mut Rng| if rng.pct(50) { SMsg::Hello(id(rng)) } else { SMsg::Ack(id(rng)) };
    let envs: Vec<Envelope<SMsg>> = (0..rng.below(5)).map(|_| Envelope { src: id(rng), dst: id(rng), msg: msg(rng) }).collect();
    let network = match rng.below(3) {
        0 => Network::new_ordered(envs),
        1 => Network::new_unordered_nonduplicating(envs),
        _ => {
            let last = if rng.pct(40) { Some(Envelope { src: id(rng), dst: id(rng), msg: msg(rng) }) } else { None };
            Network::new_unordered_duplicating_with_last_msg(envs, last)
        }
    };
    ActorModelState {
        actor_states: (0..n).map(|_| Arc::new(rng.pick(&palette).clone())).collect(),
        network,
        timers_set: (0..n)
            .map(|_| {
                let mut t = Timers::new();
                for x in 0..2u8 {
                    if rng.pct(35) {
                        t.set(x);
                    }
                }
                t
            })
            .collect(),
        random_choices: (0..n)
            .map(|_| {
                let mut rc = RandomChoices::default();
                if rng.pct(35) {
                    rc.insert("pick".into(), (0..rng.range(1, 2)).map(|_| SRand(id(rng))).collect());
                }
                rc
            })
            .collect(),
        crashed: (0..n).map(|_| rng.pct(25)).collect(),
        history: SHist((0..rng.below(4)).map(|_| id(rng)).collect()),
    }
}

fn representative_case(case: &mut Case) {
    let s = gen_sstate(&mut case.rng);
    let n = s.actor_states.len();
    let key = skey(&s);
    let ties = s.actor_states.iter().map(|a| (**a).clone()).collect::<BTreeSet<_>>().len() < n;
    let asymmetric = s.crashed.iter().collect::<BTreeSet<_>>().len() > 1
        || s.timers_set.iter().map(|t| t.iter().copied().collect::<BTreeSet<u8>>()).collect::<BTreeSet<_>>().len() > 1;
    case.distinct(hash_of(&key), n >= 2 && ties && asymmetric);
    case.sample(|| json!({"state": format!("{:?}", key)}));
    let rep = match guarded(|| s.representative()) {
        Ok(r) => r,
        Err(msg) => {
            case.violation("C10/representative/panics", json!({"state": format!("{:?}", key), "panic": msg}));
            return;
        }
    };
    let states: Vec<SState> = s.actor_states.iter().map(|a| (**a).clone()).collect();
    let pos = stable_positions(&states);
    let expected = skey(&permute(&s, &pos));
    let got = skey(&rep);
    case.add("representatives_compared", 1);
    if got == expected {
        return;
    }
    // which component deviates, and is the result at least inside the orbit?
    let component = if got.actors != expected.actors {
        "actor-states"
    } else if got.net != expected.net {
        "message-endpoints-or-payloads"
    } else if got.timers != expected.timers {
        "timers"
    } else if got.crashed != expected.crashed {
        "crash-flags"
    } else if got.randoms != expected.randoms {
        "random-choices"
    } else {
        "history"
    };
    let in_orbit = permutations(n).iter().any(|p| skey(&permute(&s, p)) == got);
    case.violation(
        &format!("C10/representative/{}-not-moved-by-the-stable-sorting-permutation{}", component, if in_orbit { "" } else { "/outside-the-orbit" }),
        json!({"state": format!("{:?}", key), "representative": format!("{:?}", got), "expected": format!("{:?}", expected), "permutation": pos}),
    );
}

// ---------------------------------------------------------------------------------------------
// (a) symmetric models: DFS with vs without symmetry.

/// n identical processes running the same local program over a shared variable.
#[derive(Clone, Debug)]
pub struct ProcModel {
    pub n: usize,
    pub pcs: u8,
    pub shared_vals: u8,
    /// program[(pc, shared)] = list of (pc', shared') alternatives
    pub program: Arc<BTreeMap<(u8, u8), Vec<(u8, u8)>>>,
    /// properties over the multiset of pcs: (expectation, pc value, threshold, shared value or 255)
    pub props: Arc<Vec<(Expectation, u8, usize, u8)>>,
    pub bound_pc: u8,
    /// Initial program counters. Not always sorted: the initial state need not be its own
    /// representative (symmetry of the transitions and properties is all the statement asks).
    pub init_pcs: Vec<u8>,
}

#[derive(Clone, Debug, PartialEq, Eq, Hash, PartialOrd, Ord)]
pub struct PState {
    pub pcs: Vec<u8>,
    pub shared: u8,
}

impl Representative for PState {
    fn representative(&self) -> Self {
        let mut pcs = self.pcs.clone();
        pcs.sort();
        PState { pcs, shared: self.shared }
    }
}

const PNAMES: [&str; 4] = ["q0", "q1", "q2", "q3"];

fn pcond<const K: usize>(m: &ProcModel, s: &PState) -> bool {
    let (_, pc, threshold, shared) = &m.props[K];
    let count = s.pcs.iter().filter(|p| *p == pc).count();
    let shared_ok = *shared == 255 || s.shared == *shared;
    // "at most `threshold` processes are at `pc` (when shared has the given value)"
    !(count > *threshold && shared_ok)
}

impl Model for ProcModel {
    type State = PState;
    type Action = (u8, u8); // (process, alternative)
    fn init_states(&self) -> Vec<PState> {
        vec![PState { pcs: self.init_pcs.clone(), shared: 0 }]
    }
    fn actions(&self, s: &PState, actions: &mut Vec<(u8, u8)>) {
        for (i, pc) in s.pcs.iter().enumerate() {
            if let Some(alts) = self.program.get(&(*pc, s.shared)) {
                for a in 0..alts.len() {
                    actions.push((i as u8, a as u8));
                }
            }
        }
    }
    fn next_state(&self, s: &PState, (i, a): (u8, u8)) -> Option<PState> {
        let alts = self.program.get(&(s.pcs[i as usize], s.shared))?;
        let (pc, shared) = alts.get(a as usize)?;
        let mut n = s.clone();
        n.pcs[i as usize] = *pc;
        n.shared = *shared;
        if n == *s {
            return None;
        }
        Some(n)
    }
    fn properties(&self) -> Vec<Property<Self>> {
        let conds: [fn(&ProcModel, &PState) -> bool; 4] = [pcond::<0>, pcond::<1>, pcond::<2>, pcond::<3>];
        self.props
            .iter()
            .enumerate()
            .map(|(i, (e, ..))| Property { expectation: e.clone(), name: PNAMES[i], condition: conds[i] })
            .collect()
    }
    fn within_boundary(&self, s: &PState) -> bool {
        s.pcs.iter().filter(|p| **p == self.bound_pc).count() < self.n.max(2)
    }
}

fn gen_proc_model(rng: &mut Rng) -> ProcModel {
    let n = rng.range(2, 4);
    let pcs = rng.range(2, 4) as u8;
    let shared_vals = rng.range(1, 3) as u8;
    let mut program = BTreeMap::new();
    for pc in 0..pcs {
        for sh in 0..shared_vals {
            if rng.pct(80) {
                let alts: Vec<(u8, u8)> = (0..rng.range(1, 2)).map(|_| (rng.below(pcs as usize) as u8, rng.below(shared_vals as usize) as u8)).collect();
                program.insert((pc, sh), alts);
            }
        }
    }
    let mut props = Vec::new();
    for _ in 0..rng.range(1, 3) {
        let e = if rng.pct(50) { Expectation::Always } else { Expectation::Sometimes };
        props.push((e, rng.below(pcs as usize) as u8, rng.below(n), if rng.pct(50) { 255 } else { rng.below(shared_vals as usize) as u8 }));
    }
    // keep-alive: never violated (more than n processes at a pc is impossible)
    props.push((Expectation::Always, 0, n, 255));
    let bound_pc = if rng.pct(30) { rng.below(pcs as usize) as u8 } else { 250 };
    // every other model starts from a mixed (often unsorted) vector of program counters
    let mut init_pcs = vec![0u8; n];
    if rng.pct(50) {
        for pc in init_pcs.iter_mut() {
            let v = rng.below(pcs as usize) as u8;
            if v != bound_pc {
                *pc = v;
            }
        }
    }
    ProcModel { n, pcs, shared_vals, program: Arc::new(program), props: Arc::new(props), bound_pc, init_pcs }
}

fn reach_proc(m: &ProcModel) -> BTreeSet<PState> {
    let mut seen = BTreeSet::new();
    let mut q = VecDeque::new();
    for s in m.init_states() {
        if m.within_boundary(&s) && seen.insert(s.clone()) {
            q.push_back(s);
        }
    }
    while let Some(s) = q.pop_front() {
        for n in m.next_states(&s) {
            if m.within_boundary(&n) && seen.insert(n.clone()) {
                q.push_back(n);
            }
        }
    }
    seen
}

struct DfsOut<S> {
    discoveries: BTreeMap<&'static str, Vec<S>>,
    unique: usize,
    visited: Vec<S>,
}

fn run_dfs<M>(model: M, symmetry: Option<fn(&M::State) -> M::State>, threads: usize) -> Result<Option<DfsOut<M::State>>, String>
where
    M: Model + Clone + Send + Sync + 'static,
    M::State: Clone + std::hash::Hash + Send + Sync + 'static + std::fmt::Debug,
    M::Action: Send + Sync + 'static,
{
    let visited: Arc<Mutex<Vec<M::State>>> = Arc::new(Mutex::new(Vec::new()));
    let v2 = visited.clone();
    let visitor = move |p: Path<M::State, M::Action>| {
        v2.lock().unwrap().push(p.last_state().clone());
    };
    let mut b = model.checker().threads(threads).visitor(visitor);
    if let Some(f) = symmetry {
        b = b.symmetry_fn(f);
    }
    guarded(move || {
        let mut c = b.spawn_dfs();
        let hs = c.handles();
        let t = Instant::now();
        while hs.iter().any(|h| !h.is_finished()) {
            if t.elapsed() > Duration::from_secs(60) {
                return None;
            }
            std::thread::sleep(Duration::from_micros(200));
        }
        for h in hs {
            if h.join().is_err() {
                panic!("checker thread panicked");
            }
        }
        let discoveries = c.discoveries().into_iter().map(|(k, p)| (k, p.into_states())).collect();
        Some(DfsOut { discoveries, unique: c.unique_state_count(), visited: std::mem::take(&mut *visited.lock().unwrap()) })
    })
}

/// Is the state sequence a real execution of the (original) model?
fn real_execution<M: Model>(m: &M, states: &[M::State]) -> bool
where
    M::State: PartialEq,
{
    if states.is_empty() || !m.init_states().contains(&states[0]) {
        return false;
    }
    states.windows(2).all(|w| m.next_states(&w[0]).contains(&w[1])) && states.iter().all(|s| m.within_boundary(s))
}

fn symmetric_proc_case(case: &mut Case) {
    let m = gen_proc_model(&mut case.rng);
    let reach = reach_proc(&m);
    let orbits: BTreeSet<PState> = reach.iter().map(|s| s.representative()).collect();
    case.distinct(hash_of(&format!("{:?}", m)), orbits.len() < reach.len() && reach.len() >= 4);
    case.sample(|| json!({"processes": m.n, "program": format!("{:?}", m.program), "properties": format!("{:?}", m.props), "reachable": reach.len(), "orbits": orbits.len()}));
    let wit = |extra: Value| json!({"model": format!("{:?}", m), "reachable": reach.len(), "orbits": orbits.len(), "detail": extra});
    let threads = *case.rng.pick(&[1usize, 1, 2, 4]);
    let plain = run_dfs(m.clone(), None, 1);
    let reduced = run_dfs(m.clone(), Some(|s: &PState| s.representative()), threads);
    let (plain, reduced) = match (plain, reduced) {
        (Ok(Some(p)), Ok(Some(r))) => (p, r),
        (Err(msg), _) | (_, Err(msg)) => {
            case.violation("C10/dfs-symmetry/process-model/checker-panicked", wit(json!({"panic": msg})));
            return;
        }
        _ => {
            case.inconclusive("DFS did not finish within the watchdog");
            return;
        }
    };
    case.add("symmetric_models_checked", 1);
    if reduced.unique < reach.len() {
        case.add("models_actually_reduced", 1);
    }
    let names = |d: &BTreeMap<&'static str, Vec<PState>>| d.keys().copied().collect::<BTreeSet<_>>();
    if names(&plain.discoveries) != names(&reduced.discoveries) {
        case.violation("C10/dfs-symmetry/process-model/verdicts-differ-from-unreduced-check", wit(json!({"plain": names(&plain.discoveries), "reduced": names(&reduced.discoveries), "threads": threads})));
        return;
    }
    if reduced.unique > reach.len() {
        case.violation("C10/dfs-symmetry/process-model/evaluates-more-states-than-the-unreduced-check", wit(json!({"unique": reduced.unique})));
        return;
    }
    if reduced.unique < orbits.len() {
        case.violation("C10/dfs-symmetry/process-model/evaluates-fewer-states-than-symmetry-classes", wit(json!({"unique": reduced.unique})));
        return;
    }
    let visited_orbits: BTreeSet<PState> = reduced.visited.iter().map(|s| s.representative()).collect();
    if let Some(missing) = orbits.iter().find(|o| !visited_orbits.contains(*o)) {
        case.violation("C10/dfs-symmetry/process-model/symmetry-class-without-evaluated-member", wit(json!({"class": format!("{:?}", missing), "threads": threads})));
        return;
    }
    if let Some(bad) = reduced.visited.iter().find(|s| !reach.contains(*s)) {
        case.violation("C10/dfs-symmetry/process-model/evaluated-state-not-reachable-in-the-original-model", wit(json!({"state": format!("{:?}", bad)})));
        return;
    }
    for (name, states) in &reduced.discoveries {
        case.add("reduced_paths_validated", 1);
        if !real_execution(&m, states) {
            case.violation("C10/dfs-symmetry/process-model/reported-path-is-not-an-execution-of-the-original-model", wit(json!({"property": name, "path": format!("{:?}", states)})));
            return;
        }
    }
}

fn symmetric_actor_case(case: &mut Case) {
    let n = if case.rng.pct(70) { 2 } else { 3 };
    let actor = SymActor {
        n,
        use_timer: case.rng.pct(40),
        use_random: case.rng.pct(40),
        max_phase: 1,
        heard_bound: case.rng.range(1, 2),
    };
    let kind = case.rng.below(3);
    let net = match kind {
        0 => Network::new_ordered([]),
        1 => Network::new_unordered_nonduplicating([]),
        _ => Network::new_unordered_duplicating([]),
    };
    let lossy = case.rng.pct(30);
    let crashes = if case.rng.pct(40) { 1 } else { 0 };
    let build = || -> SModel {
        ActorModel::new(n, SHist(Vec::new()))
            .actors((0..n).map(|_| actor.clone()))
            .init_network(net.clone())
            .lossy_network(if lossy { LossyNetwork::Yes } else { LossyNetwork::No })
            .max_crashes(crashes)
            .within_boundary(|_, s| s.network.len() <= 4)
            .property(Expectation::Sometimes, "someone finished", |m, s| s.actor_states.iter().any(|a| a.phase >= m.actors[0].max_phase))
            .property(Expectation::Always, "nobody heard itself", |_, s| s.actor_states.iter().enumerate().all(|(i, a)| !a.heard.contains(&Id::from(i))))
            .property(Expectation::Sometimes, "everyone heard someone", |_, s| s.actor_states.iter().all(|a| !a.heard.is_empty()))
            .property(Expectation::Always, "at most one crashed and chosen", |_, s| s.actor_states.iter().zip(s.crashed.iter()).filter(|(a, c)| **c && a.chosen.is_some()).count() <= 1)
            .property(Expectation::Always, "keepalive", |_, _| true)
    };
    let desc = json!({"actors": n, "actor": format!("{:?}", actor), "network": kind, "lossy": lossy, "max_crashes": crashes});
    case.sample(|| desc.clone());
    let threads = *case.rng.pick(&[1usize, 2, 4]);
    let plain = run_dfs(build(), None, 1);
    let reduced = run_dfs(build(), Some(|s: &SModelState| s.representative()), threads);
    let (plain, reduced) = match (plain, reduced) {
        (Ok(Some(p)), Ok(Some(r))) => (p, r),
        (Err(msg), _) | (_, Err(msg)) => {
            case.violation("C10/dfs-symmetry/actor-system/checker-panicked", json!({"system": desc, "panic": msg}));
            return;
        }
        _ => {
            case.inconclusive("DFS did not finish within the watchdog");
            return;
        }
    };
    let reach: BTreeSet<SKey> = plain.visited.iter().map(skey).collect();
    // orbits by brute force over all permutations
    let perms = permutations(n);
    let canon = |s: &SModelState| perms.iter().map(|p| skey(&permute(s, p))).min().unwrap();
    let orbits: BTreeSet<SKey> = plain.visited.iter().map(canon).collect();
    case.distinct(hash_of(&desc.to_string()), orbits.len() < reach.len() && reach.len() >= 6);
    case.add("symmetric_actor_systems_checked", 1);
    case.add("actor_system_states_unreduced", reach.len() as u64);
    case.add("actor_system_states_reduced", reduced.unique as u64);
    let wit = |extra: Value| json!({"system": desc, "threads": threads, "reachable": reach.len(), "orbits": orbits.len(), "reduced_unique": reduced.unique, "detail": extra});
    let names = |d: &BTreeMap<&'static str, Vec<SModelState>>| d.keys().copied().collect::<BTreeSet<_>>();
    if names(&plain.discoveries) != names(&reduced.discoveries) {
        case.violation("C10/dfs-symmetry/actor-system/verdicts-differ-from-unreduced-check", wit(json!({"plain": names(&plain.discoveries), "reduced": names(&reduced.discoveries)})));
        return;
    }
    if reduced.unique > reach.len() {
        case.violation("C10/dfs-symmetry/actor-system/evaluates-more-states-than-the-unreduced-check", wit(json!({})));
        return;
    }
    if reduced.unique < orbits.len() {
        case.violation("C10/dfs-symmetry/actor-system/evaluates-fewer-states-than-symmetry-classes", wit(json!({})));
        return;
    }
    let visited_orbits: BTreeSet<SKey> = reduced.visited.iter().map(canon).collect();
    if orbits.iter().any(|o| !visited_orbits.contains(o)) {
        case.violation("C10/dfs-symmetry/actor-system/symmetry-class-without-evaluated-member", wit(json!({})));
        return;
    }
    if reduced.visited.iter().any(|s| !reach.contains(&skey(s))) {
        case.violation("C10/dfs-symmetry/actor-system/evaluated-state-not-reachable-in-the-original-model", wit(json!({})));
        return;
    }
    let model = build();
    for (name, states) in &reduced.discoveries {
        case.add("reduced_paths_validated", 1);
        let keys: Vec<SKey> = states.iter().map(skey).collect();
        let ok = !states.is_empty()
            && model.init_states().iter().any(|i| skey(i) == keys[0])
            && states.windows(2).all(|w| model.next_states(&w[0]).iter().any(|x| skey(x) == skey(&w[1])));
        if !ok {
            case.violation("C10/dfs-symmetry/actor-system/reported-path-is-not-an-execution-of-the-original-model", wit(json!({"property": name})));
            return;
        }
    }
    // every visited state's representative obeys the stated permutation (reachable states)
    for s in plain.visited.iter().take(40) {
        let states: Vec<SState> = s.actor_states.iter().map(|a| (**a).clone()).collect();
        let pos = stable_positions(&states);
        case.add("reachable_representatives_compared", 1);
        if skey(&s.representative()) != skey(&permute(s, &pos)) {
            case.violation("C10/representative/reachable-state-not-moved-by-the-stable-sorting-permutation", wit(json!({"state": format!("{:?}", skey(s))})));
            return;
        }
    }
}

pub fn run(ctx: &mut Ctx) {
    ctx.rule = "(plan) vectors with ties: from_values_to_sort vs an independently computed stable-sort permutation; \
        reindex and the structural Rewrite impls (Vec, VecDeque, BTreeSet/Map, Hashable set/map, Option, tuple, Arc, \
        Envelope, the three Network kinds, DenseNatMap) must commute with it. (representative) generated actor-system \
        states with Id-carrying local states, messages, random choices and history, few distinct local states (ties), \
        asymmetric timers / crash flags: representative() vs the same permutation applied by hand to every component; \
        orbit membership by brute force over all n! permutations. (dfs) symmetric process-vector models and symmetric \
        actor systems (identical identity-oblivious actors, all network kinds, crashes, timers, random choices): DFS \
        with symmetry vs without - same always/sometimes verdicts, |classes| <= evaluated <= |reachable|, every class \
        has an evaluated member, evaluated states reachable, reported paths are executions of the original model. \
        Non-trivial: ties and >= 3 values (plan) / ties plus asymmetric per-actor components (representative) / the \
        reduction is real: fewer classes than reachable states (dfs)."
        .into();
    ctx.assumptions = vec![
        "canonicity of representatives (two symmetric states mapping to the same one) is not demanded, only the stated permutation and orbit membership".into(),
    ];
    let ctx = &*ctx;
    ctx.cases("plan_and_rewrite", ctx.n(30000, 1000000), 0, plan_case);
    ctx.cases("representative", ctx.n(30000, 1000000), 0, representative_case);
    ctx.cases("dfs_symmetry_process_models", ctx.n(1500, 25000), 0, symmetric_proc_case);
    ctx.cases("dfs_symmetry_actor_systems", ctx.n(200, 4000), 0, symmetric_actor_case);
}
