//! C18 — reference objects and the register harness yield well-formed, faithful histories.

use crate::ctx::{guarded, hash_of, Case, Ctx};
use crate::hist::SpecGen;
use crate::rng::Rng;
use serde_json::{json, Value};
use stateright::actor::{Actor, ActorModel, ActorModelAction, Envelope, Id, LossyNetwork, Network, Out};
use stateright::semantics::register::Register;
use stateright::semantics::write_once_register::WORegister;
use stateright::semantics::{ConsistencyTester, LinearizabilityTester, SequentialConsistencyTester, SequentialSpec};
use stateright::Model;
use std::borrow::Cow;
use std::collections::{BTreeMap, BTreeSet};
use std::fmt::Debug;
use std::hash::Hash;

// -- 1. reference objects ---------------------------------------------------------------------------

fn spec_case<S: SpecGen>(case: &mut Case)
where
    S::Op: Clone + Debug + PartialEq + Hash + Send + Sync,
    S::Ret: Clone + Debug + PartialEq + Hash + Send + Sync,
{
    let ops = S::ops();
    let rets = S::rets();
    let init = S::init(&mut case.rng);
    let mut obj = init.clone();
    let len = case.rng.range(0, 8);
    let mut seq: Vec<(S::Op, S::Ret)> = Vec::new();
    let mut valid_so_far = true;
    let style = case.rng.below(3); // 0 all valid, 1 one-off invalid, 2 nonsense pairings
    let bad_at = case.rng.below(len.max(1));
    let wit = |seq: &[(S::Op, S::Ret)]| json!({"spec": S::NAME, "init": format!("{:?}", init), "sequence": format!("{:?}", seq)});
    for i in 0..len {
        let op = case.rng.pick(&ops).clone();
        let truth = obj.clone().invoke(&op);
        let ret = match style {
            0 => truth.clone(),
            1 if i == bad_at => case.rng.pick(&rets).clone(),
            1 => truth.clone(),
            _ => {
                if case.rng.pct(50) {
                    truth.clone()
                } else {
                    case.rng.pick(&rets).clone()
                }
            }
        };
        // step equivalence at this prefix
        let mut by_step = obj.clone();
        let mut by_invoke = obj.clone();
        let step_ok = by_step.is_valid_step(&op, &ret);
        let invoke_ok = by_invoke.invoke(&op) == ret;
        case.add("steps_compared", 1);
        if step_ok != invoke_ok {
            let mut s = seq.clone();
            s.push((op.clone(), ret.clone()));
            case.violation(
                &format!("C18/spec/{}/is_valid_step-disagrees-with-invoke", S::NAME),
                json!({"case": wit(&s), "object_before": format!("{:?}", obj), "is_valid_step": step_ok, "invoke_matches": invoke_ok}),
            );
            return;
        }
        if step_ok && by_step != by_invoke {
            let mut s = seq.clone();
            s.push((op.clone(), ret.clone()));
            case.violation(
                &format!("C18/spec/{}/object-after-valid-step-differs-from-object-after-invoke", S::NAME),
                json!({"case": wit(&s), "after_step": format!("{:?}", by_step), "after_invoke": format!("{:?}", by_invoke)}),
            );
            return;
        }
        // A rejected step whose expected return is of the right kind for the operation (same
        // variant as the truthful return, other payload) must still leave the object as invoke does;
        // ill-typed pairings are left alone (the specifications reject those without touching the object).
        if !step_ok && std::mem::discriminant(&ret) == std::mem::discriminant(&truth) {
            case.add("rejected_well_typed_steps_compared", 1);
            if by_step != by_invoke {
                let mut s = seq.clone();
                s.push((op.clone(), ret.clone()));
                case.violation(
                    &format!("C18/spec/{}/object-after-rejected-well-typed-step-differs-from-object-after-invoke", S::NAME),
                    json!({"case": wit(&s), "after_step": format!("{:?}", by_step), "after_invoke": format!("{:?}", by_invoke)}),
                );
                return;
            }
        }
        seq.push((op, ret));
        if valid_so_far && invoke_ok {
            obj = by_invoke;
        } else {
            valid_so_far = false;
        }
    }
    // whole-history equivalence
    let mut replay = init.clone();
    let expected = seq.iter().all(|(op, ret)| &replay.invoke(op) == ret);
    let got = init.clone().is_valid_history(seq.clone());
    case.add("histories_compared", 1);
    case.distinct(hash_of(&(S::NAME, format!("{:?}", init), format!("{:?}", seq))), seq.len() >= 2);
    case.sample(|| wit(&seq));
    if got != expected {
        case.violation(
            &format!("C18/spec/{}/is_valid_history-disagrees-with-invoking-from-the-initial-object", S::NAME),
            json!({"case": wit(&seq), "is_valid_history": got, "by_invoke": expected}),
        );
    }
}

// -- 2. register harness ---------------------------------------------------------------------------

/// Internal server-to-server message: (client, request id, phase 0 = ask / 1 = answer, is_put, value)
pub type Internal = (u64, u64, u8, bool, char);

#[derive(Clone, Copy, Debug, PartialEq, Eq, Hash)]
pub enum Mode {
    Immediate,
    ViaPeer,
    Never,
}

/// A generated server: answers every request at most once (also under redelivery), either at
/// once, after an internal round trip with a peer server, or never; with correct or arbitrary
/// values.
#[derive(Clone, Debug, PartialEq, Eq, Hash)]
pub struct GenServer {
    pub put_mode: Mode,
    pub get_mode: Mode,
    pub arbitrary_values: bool,
    pub peer: usize,
    pub sometimes_fail: bool,
}

#[derive(Clone, Debug, PartialEq, Eq, Hash, PartialOrd, Ord)]
pub struct ServerState {
    pub value: Option<char>,
    pub seen: BTreeSet<(u64, u64, bool)>,
    pub answered: BTreeSet<(u64, u64)>,
}

/// What a hook saw, in order: (0 received / 1 sent, src, dst, rendering of the message).
pub type RawLog = Vec<(u8, usize, usize, String)>;

macro_rules! harness {
    ($modname:ident, $Msg:ident, $ActorT:ident, $StateT:ident, $Spec:ident, $SpecOp:ident, $SpecRet:ident, $path:path, $specpath:path, $wo:expr, $name:expr) => {
        pub mod $modname {
            use super::*;
            use $path::{$ActorT, $Msg, $StateT};
            use $specpath::{$Spec, $SpecOp, $SpecRet};

            pub type M = $Msg<u64, char, Internal>;

            impl Actor for super::Tagged<GenServer, M> {
                type Msg = M;
                type Timer = ();
                type Random = ();
                type State = ServerState;
                fn on_start(&self, _: Id, _: &mut Out<Self>) -> ServerState {
                    ServerState { value: None, seen: BTreeSet::new(), answered: BTreeSet::new() }
                }
                fn on_msg(&self, id: Id, state: &mut Cow<ServerState>, src: Id, msg: M, o: &mut Out<Self>) {
                    let g = &self.0;
                    let me = usize::from(id) as u64;
                    let client = usize::from(src) as u64;
                    let answer = |st: &mut ServerState, client: u64, rid: u64, is_put: bool, v: char, o: &mut Out<Self>| {
                        if !st.answered.insert((client, rid)) {
                            return;
                        }
                        if is_put {
                            let fail = $wo && (g.sometimes_fail || (st.value.is_some() && st.value != Some(v)));
                            if fail && $wo {
                                o.send(Id::from(client as usize), super::put_fail::<M>(rid));
                            } else {
                                if !$wo || st.value.is_none() {
                                    st.value = Some(v);
                                }
                                o.send(Id::from(client as usize), $Msg::PutOk(rid));
                            }
                        } else {
                            let val = if g.arbitrary_values { 'Q' } else { st.value.unwrap_or('?') };
                            o.send(Id::from(client as usize), $Msg::GetOk(rid, val));
                        }
                    };
                    match msg {
                        $Msg::Put(rid, v) => {
                            if state.seen.contains(&(client, rid, true)) {
                                return;
                            }
                            let st = state.to_mut();
                            st.seen.insert((client, rid, true));
                            match g.put_mode {
                                Mode::Immediate => answer(st, client, rid, true, v, o),
                                Mode::ViaPeer => o.send(Id::from(g.peer), $Msg::Internal((client, rid, 0, true, v))),
                                Mode::Never => {}
                            }
                        }
                        $Msg::Get(rid) => {
                            if state.seen.contains(&(client, rid, false)) {
                                return;
                            }
                            let st = state.to_mut();
                            st.seen.insert((client, rid, false));
                            match g.get_mode {
                                Mode::Immediate => answer(st, client, rid, false, ' ', o),
                                Mode::ViaPeer => o.send(Id::from(g.peer), $Msg::Internal((client, rid, 0, false, ' '))),
                                Mode::Never => {}
                            }
                        }
                        $Msg::Internal((c, rid, 0, is_put, v)) => {
                            // a peer asks: echo once
                            if state.seen.contains(&(c + 1000 * (me + 1), rid, is_put)) {
                                return;
                            }
                            state.to_mut().seen.insert((c + 1000 * (me + 1), rid, is_put));
                            o.send(src, $Msg::Internal((c, rid, 1, is_put, v)));
                        }
                        $Msg::Internal((c, rid, _, is_put, v)) => {
                            if state.answered.contains(&(c, rid)) {
                                return;
                            }
                            let st = state.to_mut();
                            answer(st, c, rid, is_put, v, o);
                        }
                        _ => {}
                    }
                }
            }

            pub type Server = super::Tagged<GenServer, M>;
            pub type A = $ActorT<Server>;
            pub type Lin = LinearizabilityTester<Id, $Spec<char>>;
            pub type Sc = SequentialConsistencyTester<Id, $Spec<char>>;

            /// History = (the tester fed by the provided hooks, raw log of what the hooks saw).
            pub type H<T> = (T, RawLog);

            fn hook_out<T: Clone + ConsistencyTester<Id, $Spec<char>>>(cfg: &(), h: &H<T>, env: Envelope<&M>) -> Option<H<T>> {
                let mut log = h.1.clone();
                log.push((1, usize::from(env.src), usize::from(env.dst), format!("{:?}", env.msg)));
                let tester = $Msg::record_invocations(cfg, &h.0, env).unwrap_or_else(|| h.0.clone());
                Some((tester, log))
            }
            fn hook_in<T: Clone + ConsistencyTester<Id, $Spec<char>>>(cfg: &(), h: &H<T>, env: Envelope<&M>) -> Option<H<T>> {
                let mut log = h.1.clone();
                log.push((0, usize::from(env.src), usize::from(env.dst), format!("{:?}", env.msg)));
                let tester = $Msg::record_returns(cfg, &h.0, env).unwrap_or_else(|| h.0.clone());
                Some((tester, log))
            }

            pub fn harness_case<T>(case: &mut Case, tester_name: &str)
            where
                T: Clone + Debug + Hash + PartialEq + ConsistencyTester<Id, $Spec<char>> + Default + Send + Sync + 'static,
            {
                let server_count = case.rng.range(1, 2);
                let client_count = case.rng.range(1, 3);
                let modes = [Mode::Immediate, Mode::Immediate, Mode::ViaPeer, Mode::Never];
                let mut actors: Vec<A> = Vec::new();
                let mut desc = Vec::new();
                for i in 0..server_count {
                    let g = GenServer {
                        put_mode: *case.rng.pick(&modes),
                        get_mode: *case.rng.pick(&modes),
                        arbitrary_values: case.rng.pct(30),
                        peer: (i + 1) % server_count,
                        sometimes_fail: $wo && case.rng.pct(20),
                    };
                    desc.push(format!("{:?}", g));
                    actors.push($ActorT::Server(super::Tagged(g, Default::default())));
                }
                for _ in 0..client_count {
                    let put_count = case.rng.below(4);
                    desc.push(format!("Client{{put_count:{}}}", put_count));
                    actors.push($ActorT::Client { put_count, server_count });
                }
                let kind = case.rng.below(3);
                let lossy = case.rng.pct(40);
                let net: Network<M> = match kind {
                    0 => Network::new_ordered([]),
                    1 => Network::new_unordered_nonduplicating([]),
                    _ => Network::new_unordered_duplicating([]),
                };
                let kind_name = ["ordered", "nonduplicating", "duplicating"][kind];
                let sysdesc = json!({"harness": $name, "tester": tester_name, "actors": desc, "network": kind_name, "lossy": lossy});
                case.sample(|| sysdesc.clone());
                let model: ActorModel<A, (), H<T>> = ActorModel::new((), (T::default(), Vec::new()))
                    .actors(actors)
                    .init_network(net)
                    .lossy_network(if lossy { LossyNetwork::Yes } else { LossyNetwork::No })
                    .record_msg_out(hook_out::<T>)
                    .record_msg_in(hook_in::<T>);
                let mut steps_total = 0;
                let mut returns_seen = 0;
                for _ in 0..4 {
                    let init = match guarded(|| model.init_states()) {
                        Ok(i) => i,
                        Err(msg) => {
                            case.violation(&format!("C18/harness/{}/panic-at-start", $name), json!({"system": sysdesc, "panic": msg}));
                            return;
                        }
                    };
                    let mut s = init.into_iter().next().unwrap();
                    let mut trace: Vec<String> = Vec::new();
                    for _ in 0..case.rng.range(10, 70) {
                        if !monitor::<T>(case, &sysdesc, server_count, &s, &trace, &mut returns_seen) {
                            case.distinct(hash_of(&sysdesc.to_string()), true);
                            return;
                        }
                        let steps = match guarded(|| model.next_steps(&s)) {
                            Ok(st) => st,
                            Err(msg) => {
                                case.violation(&format!("C18/harness/{}/panic-in-step", $name), json!({"system": sysdesc, "trace": trace, "panic": msg}));
                                return;
                            }
                        };
                        if steps.is_empty() {
                            break;
                        }
                        // prefer deliveries over drops so that operations complete
                        let weights: Vec<usize> = steps.iter().map(|(a, _)| if matches!(a, ActorModelAction::Drop(_)) { 1 } else { 4 }).collect();
                        let total: usize = weights.iter().sum();
                        let mut pick = case.rng.below(total);
                        let mut idx = 0;
                        for (i, w) in weights.iter().enumerate() {
                            if pick < *w {
                                idx = i;
                                break;
                            }
                            pick -= w;
                        }
                        let (a, next) = steps.into_iter().nth(idx).unwrap();
                        trace.push(format!("{:?}", a));
                        s = next;
                        steps_total += 1;
                    }
                }
                case.add("harness_steps_monitored", steps_total);
                case.add("client_returns_observed", returns_seen);
                case.distinct(hash_of(&sysdesc.to_string()), returns_seen >= 2);
            }

            /// Checks one state: replays the raw hook log into client-visible calls.
            fn monitor<T>(
                case: &Case,
                sysdesc: &Value,
                server_count: usize,
                s: &stateright::actor::ActorModelState<A, H<T>>,
                trace: &[String],
                returns_seen: &mut u64,
            ) -> bool
            where
                T: Clone + Debug + Hash + PartialEq + ConsistencyTester<Id, $Spec<char>> + Default,
            {
                let sig = |what: &str| format!("C18/harness/{}/{}", $name, what);
                let wit = |extra: Value| json!({"system": sysdesc, "trace": trace, "raw_hook_log": s.history.1, "detail": extra});
                let mut mine = T::default();
                let mut outstanding: BTreeMap<usize, u64> = BTreeMap::new(); // client -> request id
                let mut used: BTreeMap<usize, BTreeSet<u64>> = BTreeMap::new();
                let mut returns = 0u64;
                for (dir, src, dst, text) in &s.history.1 {
                    let parsed = super::parse_msg(text);
                    match (dir, parsed) {
                        (1, Some(("Put", rid, v))) | (1, Some(("Get", rid, v))) if *src >= server_count => {
                            let is_put = text.starts_with("Put");
                            if outstanding.contains_key(src) {
                                case.violation(&sig("client-has-two-operations-outstanding"), wit(json!({"client": src})));
                                return false;
                            }
                            if !used.entry(*src).or_default().insert(rid) {
                                case.violation(&sig("client-reuses-a-request-id"), wit(json!({"client": src, "request_id": rid})));
                                return false;
                            }
                            outstanding.insert(*src, rid);
                            let op = if is_put { $SpecOp::Write(v.unwrap_or('?')) } else { $SpecOp::Read };
                            let _ = mine.on_invoke(Id::from(*src), op);
                        }
                        (0, Some((kind, rid, v))) if *dst >= server_count && (kind == "PutOk" || kind == "GetOk" || kind == "PutFail") => {
                            // the hook runs for deliveries that are steps; it is a client-visible
                            // reply only if the client was awaiting exactly this request
                            let awaited = outstanding.get(dst) == Some(&rid);
                            let ret = super::ret_of::<$SpecRet<char>>(kind, v, $wo);
                            let _ = mine.on_return(Id::from(*dst), ret);
                            if awaited {
                                outstanding.remove(dst);
                                returns += 1;
                            } else {
                                case.violation(&sig("reply-recorded-for-a-request-the-client-is-not-awaiting"), wit(json!({"client": dst, "request_id": rid})));
                                return false;
                            }
                        }
                        _ => {}
                    }
                }
                *returns_seen = (*returns_seen).max(returns);
                if mine != s.history.0 {
                    case.violation(
                        &sig("recorded-history-differs-from-client-visible-calls"),
                        wit(json!({"recorded": format!("{:?}", s.history.0), "replayed": format!("{:?}", mine)})),
                    );
                    return false;
                }
                // well-formed: a fresh thread can still record an invocation
                let mut probe = s.history.0.clone();
                if probe.on_invoke(Id::from(9999), $SpecOp::Read).is_err() {
                    case.violation(&sig("recorded-history-is-ill-formed"), wit(json!({"recorded": format!("{:?}", s.history.0)})));
                    return false;
                }
                // the client states agree with the reconstruction
                for (i, a) in s.actor_states.iter().enumerate() {
                    if let $StateT::Client { awaiting, .. } = &**a {
                        if *awaiting != outstanding.get(&i).copied() {
                            case.violation(
                                &sig("client-awaiting-differs-from-outstanding-operation"),
                                wit(json!({"client": i, "awaiting": format!("{:?}", awaiting), "outstanding": format!("{:?}", outstanding.get(&i))})),
                            );
                            return false;
                        }
                    }
                }
                true
            }
        }
    };
}

/// Distinguishes the server actor per message type (one Rust type per harness).
#[derive(Clone, Debug, PartialEq, Eq, Hash)]
pub struct Tagged<G, M>(pub G, pub std::marker::PhantomData<M>);

/// Parses the `Debug` rendering of a harness message: (variant, request id, value).
pub fn parse_msg(text: &str) -> Option<(&'static str, u64, Option<char>)> {
    let (name, rest) = text.split_once('(')?;
    let inner = rest.strip_suffix(')')?;
    let name: &'static str = match name {
        "Put" => "Put",
        "Get" => "Get",
        "PutOk" => "PutOk",
        "PutFail" => "PutFail",
        "GetOk" => "GetOk",
        _ => return None,
    };
    let mut parts = inner.splitn(2, ", ");
    let rid: u64 = parts.next()?.trim().parse().ok()?;
    let v = parts.next().and_then(|p| p.trim().trim_matches('\'').chars().next());
    Some((name, rid, v))
}

pub trait PutFail {
    fn put_fail(rid: u64) -> Self;
}
impl PutFail for stateright::actor::register::RegisterMsg<u64, char, Internal> {
    fn put_fail(rid: u64) -> Self {
        stateright::actor::register::RegisterMsg::PutOk(rid)
    }
}
impl PutFail for stateright::actor::write_once_register::WORegisterMsg<u64, char, Internal> {
    fn put_fail(rid: u64) -> Self {
        stateright::actor::write_once_register::WORegisterMsg::PutFail(rid)
    }
}
pub fn put_fail<M: PutFail>(rid: u64) -> M {
    M::put_fail(rid)
}

pub trait RetOf {
    fn ret_of(kind: &str, v: Option<char>) -> Self;
}
impl RetOf for stateright::semantics::register::RegisterRet<char> {
    fn ret_of(kind: &str, v: Option<char>) -> Self {
        match kind {
            "GetOk" => stateright::semantics::register::RegisterRet::ReadOk(v.unwrap_or('?')),
            _ => stateright::semantics::register::RegisterRet::WriteOk,
        }
    }
}
impl RetOf for stateright::semantics::write_once_register::WORegisterRet<char> {
    fn ret_of(kind: &str, v: Option<char>) -> Self {
        use stateright::semantics::write_once_register::WORegisterRet as R;
        match kind {
            "GetOk" => R::ReadOk(Some(v.unwrap_or('?'))),
            "PutFail" => R::WriteFail,
            _ => R::WriteOk,
        }
    }
}
pub fn ret_of<R: RetOf>(kind: &str, v: Option<char>, _wo: bool) -> R {
    R::ret_of(kind, v)
}

harness!(reg, RegisterMsg, RegisterActor, RegisterActorState, Register, RegisterOp, RegisterRet,
    stateright::actor::register, stateright::semantics::register, false, "register");
harness!(wo, WORegisterMsg, WORegisterActor, WORegisterActorState, WORegister, WORegisterOp, WORegisterRet,
    stateright::actor::write_once_register, stateright::semantics::write_once_register, true, "write-once-register");

#[allow(dead_code)]
fn unused(_: &mut Rng) {}

pub fn run(ctx: &mut Ctx) {
    ctx.rule = "(spec) for Register, WORegister and Vec: random op/return sequences (all valid / one-off invalid / \
        nonsense pairings) from random initial objects; at every prefix is_valid_step is compared with invoke (and \
        the resulting objects when both accept, and also when a step whose expected return has the right variant but \
        another payload is rejected), and is_valid_history with replaying invoke from the initial \
        object. (harness) ActorModel<RegisterActor<S>> and <WORegisterActor<S>> with 1-2 generated servers \
        (answer at once / after an internal round trip / never; correct or arbitrary values; at most once also \
        under redelivery) and 1-3 clients (put_count 0-3) on all network kinds incl. duplicating + lossy, with \
        record_invocations / record_returns wrapped so that the raw envelopes are logged too; both tester types. \
        At every state of hostile walks: one outstanding operation per client, fresh request ids, the recorded \
        tester == the tester replayed from the client-visible calls, well-formedness, client state agreement. \
        Non-trivial: sequence of >= 2 steps / >= 2 client-visible returns observed."
        .into();
    ctx.assumptions = vec![
        "object state after a *failing* step is not compared (unspecified by the trait)".into(),
        "servers answer each request at most once, as the statement assumes".into(),
    ];
    let ctx = &*ctx;
    let n = ctx.n(30000, 1500000);
    ctx.cases("spec/Register", n, 0, spec_case::<Register<char>>);
    ctx.cases("spec/WORegister", n, 0, spec_case::<WORegister<char>>);
    ctx.cases("spec/Vec", n, 0, spec_case::<Vec<char>>);
    let h = ctx.n(1500, 120000);
    ctx.cases("harness/register/linearizability", h, 0, |c| reg::harness_case::<reg::Lin>(c, "linearizability"));
    ctx.cases("harness/register/sequential", h / 2, 0, |c| reg::harness_case::<reg::Sc>(c, "sequential-consistency"));
    ctx.cases("harness/write-once/linearizability", h, 0, |c| wo::harness_case::<wo::Lin>(c, "linearizability"));
    ctx.cases("harness/write-once/sequential", h / 2, 0, |c| wo::harness_case::<wo::Sc>(c, "sequential-consistency"));
}
