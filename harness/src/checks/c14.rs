//! C14 — the sequential-consistency tester decides sequential consistency exactly; inclusion
//! Lin ⊆ SC; both testers are plain values (a clone never alters the original).

use crate::checks::c08::{draw_history, enumerate_case, judge_history};
use crate::ctx::{hash_of, Case, Ctx};
use crate::hist::*;
use serde_json::json;
use stateright::semantics::register::Register;
use stateright::semantics::write_once_register::WORegister;
use stateright::semantics::{LinearizabilityTester, SequentialConsistencyTester};
use std::fmt::Debug;
use std::hash::{Hash, Hasher};

/// Everything observable about a tester, for before/after comparison.
fn observe<S: SpecGen, T: TesterApi<S>>(t: &T) -> (String, u64, usize, bool, String)
where
    S::Op: Clone + Debug + PartialEq + Hash + Send + Sync,
    S::Ret: Clone + Debug + PartialEq + Hash + Send + Sync,
{
    let mut h = std::collections::hash_map::DefaultHasher::new();
    t.hash(&mut h);
    (format!("{:?}", t), h.finish(), t.length(), t.is_consistent(), format!("{:?}", t.serialization()))
}

fn clone_check<S: SpecGen, T: TesterApi<S>>(case: &mut Case, init: &S, h: &History<S>)
where
    S::Op: Clone + Debug + PartialEq + Hash + Send + Sync,
    S::Ret: Clone + Debug + PartialEq + Hash + Send + Sync,
{
    let tname = <T as TesterApi<S>>::NAME;
    let mut original = T::fresh(init.clone());
    for i in 0..=h.len() {
        // clone at this prefix, extend the clone with the rest and with garbage
        let before = observe::<S, T>(&original);
        let kept = original.clone();
        let mut copy = original.clone();
        let _ = feed(&mut copy, &h[i..].to_vec());
        let garbage = gen_random::<S>(&mut case.rng, 3, 4);
        let _ = feed(&mut copy, &garbage);
        // query the clone first: whatever it computes or caches is its own business
        let _ = observe::<S, T>(&copy);
        let after = observe::<S, T>(&original);
        case.add("clone_points_checked", 1);
        if before != after || kept != original {
            case.violation(
                &format!("C14/{}/{}/recording-into-a-clone-alters-the-original", tname, S::NAME),
                json!({"history": history_json(init, h), "clone_taken_after_event": i, "before": before.0, "after": after.0}),
            );
            return;
        }
        drop(copy);
        if i < h.len() {
            let _ = feed(&mut original, &h[i..i + 1].to_vec());
            // ... and the other way round: the original moves on and is queried; the clone taken
            // before must still report what the original reported then
            let _ = observe::<S, T>(&original);
            let kept_now = observe::<S, T>(&kept);
            if kept_now != before {
                case.violation(
                    &format!("C14/{}/{}/recording-into-the-original-alters-an-earlier-clone", tname, S::NAME),
                    json!({"history": history_json(init, h), "clone_taken_after_event": i, "before": before.0, "after": kept_now.0}),
                );
                return;
            }
        }
    }
}

fn random_case<S: SpecGen>(case: &mut Case, max_ops: usize)
where
    S::Op: Clone + Debug + PartialEq + Hash + Send + Sync,
    S::Ret: Clone + Debug + PartialEq + Hash + Send + Sync,
{
    let (init, h, overlap) = draw_history::<S>(case, max_ops);
    case.distinct(hash_of(&(S::NAME, format!("{:?}", init), &h)), overlap);
    case.sample(|| history_json(&init, &h));
    let sc = judge_history::<S, SequentialConsistencyTester<u8, S>>(case, "C14", &init, &h);
    // inclusion, judged on the testers' own answers
    if well_formed(&h) {
        let mut lin = LinearizabilityTester::<u8, S>::new(init.clone());
        if feed(&mut lin, &h).is_none() {
            use stateright::semantics::ConsistencyTester;
            let lin_ok = lin.is_consistent();
            case.add("inclusion_pairs_compared", 1);
            if lin_ok {
                case.add("linearizable_histories", 1);
            }
            if lin_ok && sc == Some(false) {
                case.violation(
                    &format!("C14/inclusion/{}/linearizable-history-rejected-by-sequential-consistency-tester", S::NAME),
                    json!({"history": history_json(&init, &h)}),
                );
                return;
            }
        }
    }
    if case.k % 4 == 0 {
        clone_check::<S, SequentialConsistencyTester<u8, S>>(case, &init, &h);
        clone_check::<S, LinearizabilityTester<u8, S>>(case, &init, &h);
    }
}

pub fn run(ctx: &mut Ctx) {
    ctx.rule = "Same G3 histories as C08 (plausible / random / ill-formed, five specifications), judged against the \
        brute-force sequential-consistency oracle (program order only); every fourth history additionally runs the \
        clone check for both testers: at every prefix a clone is taken and extended with the rest of the history \
        and with garbage, and Debug, Hash, ==, len, is_consistent and serialized_history of the original are \
        compared before/after. Inclusion: whenever the linearizability tester accepts, the SC tester must. Thorough \
        adds the complete small enumeration. Non-trivial: two operations of different threads overlap."
        .into();
    let ctx = &*ctx;
    let n = ctx.n(30000, 1200000);
    ctx.cases("random/Register", n, 0, |c| random_case::<Register<char>>(c, 7));
    ctx.cases("random/WORegister", n, 0, |c| random_case::<WORegister<char>>(c, 7));
    ctx.cases("random/Vec", n, 0, |c| random_case::<Vec<char>>(c, 7));
    ctx.cases("random/Counter", n / 2, 0, |c| random_case::<Counter>(c, 7));
    ctx.cases("random/Fifo", n / 2, 0, |c| random_case::<Fifo>(c, 7));
    let max_len = ctx.n(4, 6);
    let mut plans = Vec::new();
    for len in 1..=max_len {
        for threads in 1..=3usize {
            plans.push((len as usize, threads));
        }
    }
    let plans = &plans;
    ctx.cases("enumerate/Register", plans.len() as u64, 0, |c| {
        let (len, threads) = plans[c.k as usize];
        enumerate_case::<Register<char>, SequentialConsistencyTester<u8, Register<char>>>(c, "C14", Register('A'), threads, len);
    });
    ctx.cases("enumerate/Vec", plans.len() as u64, 0, |c| {
        let (len, threads) = plans[c.k as usize];
        enumerate_case::<Vec<char>, SequentialConsistencyTester<u8, Vec<char>>>(c, "C14", vec![], threads, len);
    });
}
