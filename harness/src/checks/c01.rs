//! C01 — exhaustive checkers evaluate exactly the reachable in-boundary state space.

use crate::ctx::{Case, Ctx};
use crate::graph::*;
use crate::runner::*;
use serde_json::json;
use stateright::Expectation;
use std::sync::Arc;
use std::time::Duration;

const STRATEGIES: [Strategy; 3] = [Strategy::Bfs, Strategy::Dfs, Strategy::OnDemand];

/// Adds a few random properties plus a keep-alive always-property that is never violated, so
/// that the run is not cut short by the documented "every property has a discovery" exit.
pub fn add_props_with_keepalive(rng: &mut crate::rng::Rng, g: &mut GraphData, reach: &Reach, extra: usize) {
    let kinds = [Expectation::Always, Expectation::Sometimes, Expectation::Eventually];
    for _ in 0..extra {
        let labels = gen_labels(rng, g, reach);
        g.labels.push(labels);
        let kind = rng.pick(&kinds).clone();
        g.props.push((kind, g.labels.len() - 1));
    }
    g.labels.push(vec![true; g.n]);
    let at = rng.below(g.props.len() + 1);
    g.props.insert(at, (Expectation::Always, g.labels.len() - 1));
}

pub fn check_exhaustive_run(
    case: &Case,
    g: &GraphData,
    reach: &Reach,
    strategy: Strategy,
    threads: usize,
    out: &RunOut,
    full_paths: bool,
) {
    let tag = strategy.name();
    let desc = || json!({"model": g.summary(), "strategy": tag, "threads": threads});
    if !out.finished {
        case.inconclusive(&format!("{} threads={} did not finish within the watchdog", tag, threads));
        return;
    }
    if !out.worker_panics.is_empty() {
        case.violation(
            &format!("C01/{}/worker-panicked", tag),
            json!({"run": desc(), "panics": out.worker_panics}),
        );
        return;
    }
    let mut seen = vec![0u32; g.n];
    for s in &out.visited_states {
        seen[*s as usize] += 1;
    }
    case.add("states_compared", g.n as u64);
    for s in 0..g.n {
        if reach.reachable[s] && seen[s] == 0 {
            case.violation(
                &format!("C01/{}/reachable-state-not-visited", tag),
                json!({"run": desc(), "state": s, "visited": out.visited_states.len(), "reachable": reach.count}),
            );
            return;
        }
        if !reach.reachable[s] && seen[s] > 0 {
            let what = if g.inb[s] { "visited-unreachable-state" } else { "visited-state-outside-boundary" };
            case.violation(&format!("C01/{}/{}", tag, what), json!({"run": desc(), "state": s}));
            return;
        }
        if seen[s] > 1 {
            case.violation(
                &format!("C01/{}/state-visited-twice", tag),
                json!({"run": desc(), "state": s, "times": seen[s]}),
            );
            return;
        }
    }
    if full_paths {
        for p in &out.visits {
            case.add("visitor_paths_validated", 1);
            if let Err(reason) = validate_path(g, p) {
                case.violation(
                    &format!("C01/{}/visitor-path-invalid:{}", tag, reason),
                    json!({"run": desc(), "path": path_json(p)}),
                );
                return;
            }
        }
    }
    if out.unique != reach.count {
        case.violation(
            &format!("C01/{}/unique-state-count-mismatch", tag),
            json!({"run": desc(), "unique_state_count": out.unique, "reachable": reach.count}),
        );
        return;
    }
    if out.state_count < out.unique {
        case.violation(
            &format!("C01/{}/state-count-below-unique", tag),
            json!({"run": desc(), "state_count": out.state_count, "unique": out.unique}),
        );
        return;
    }
    if out.state_count == reach.generated {
        case.add("state_count_equals_generated_formula", 1);
    } else {
        case.add("state_count_differs_from_generated_formula", 1);
    }
}

fn small_case(case: &mut Case, max_n: usize, thread_choices: &[usize]) {
    let knobs = Knobs { max_n, ..Knobs::default() };
    let mut g = gen_graph(&mut case.rng, &knobs);
    let reach = g.reach();
    let extra = case.rng.below(3);
    add_props_with_keepalive(&mut case.rng, &mut g, &reach, extra);
    let nontrivial = reach.count >= 2 && reach.generated > reach.count;
    case.distinct(g.structural_hash(), nontrivial);
    let model = GraphModel(Arc::new(g));
    case.sample(|| model.summary());
    for strategy in STRATEGIES {
        for _ in 0..2 {
            let threads = *case.rng.pick(thread_choices);
            let cfg = RunCfg { threads, ..RunCfg::default() };
            let out = if strategy == Strategy::OnDemand && case.rng.pct(50) {
                // targeted requests first, then run to completion: still a run-to-completion check
                case.add("runs_on_demand_with_requests_first", 1);
                let mut rq = case.rng.fork();
                let k = rq.range(1, 8);
                run_on_demand_stepwise(&model, &cfg, &mut rq, k, false)
            } else {
                run_checker(&model, strategy, &cfg, false)
            };
            case.add(&format!("runs_{}_t{}", strategy.name(), threads), 1);
            case.add("states_visited", out.visited_states.len() as u64);
            check_exhaustive_run(case, &model, &reach, strategy, threads, &out, true);
        }
    }
}

fn large_case(case: &mut Case, depth: usize, width: usize) {
    let knobs = Knobs { layered: Some((depth, width)), ..Knobs::default() };
    let mut g = gen_graph(&mut case.rng, &knobs);
    // cut a few states out with the boundary
    for s in width..g.n {
        if case.rng.chance(1, 50) {
            g.inb[s] = false;
        }
    }
    let reach = g.reach();
    add_props_with_keepalive(&mut case.rng, &mut g, &reach, 1);
    case.distinct(g.structural_hash(), reach.count >= 2 && reach.generated > reach.count);
    let model = GraphModel(Arc::new(g));
    case.sample(|| model.summary());
    for strategy in STRATEGIES {
        // two runs per strategy: many workers racing on the joins of one layer is where
        // insert-if-absent arbitration matters
        for threads in [*case.rng.pick(&[2usize, 4]), *case.rng.pick(&[8usize, 16])] {
            let cfg = RunCfg { threads, visitor: 2, watchdog: Duration::from_secs(180), ..RunCfg::default() };
            let out = run_checker(&model, strategy, &cfg, false);
            case.add(&format!("large_runs_{}_t{}", strategy.name(), threads), 1);
            case.add("states_visited", out.visited_states.len() as u64);
            check_exhaustive_run(case, &model, &reach, strategy, threads, &out, false);
        }
    }
}

/// Models whose only properties are eventually-properties without any counterexample (every
/// maximal path meets the condition, by the oracle): nothing can be discovered, so there is no
/// reason to stop early and the whole reachable set has to be evaluated - also past the states
/// at which every property has already been met on the path.
fn eventually_only_case(case: &mut Case) {
    let knobs = Knobs { max_n: 24, ..Knobs::default() };
    let mut g = gen_graph(&mut case.rng, &knobs);
    let reach = g.reach();
    let mut tries = 0;
    while g.props.len() < case.rng.range(1, 2) && tries < 12 {
        tries += 1;
        // true at the initial states and at a random set of further states
        let mut l: Vec<bool> = (0..g.n).map(|_| case.rng.pct(40)).collect();
        for i in &g.inits {
            l[*i as usize] = true;
        }
        if !g.eventually_counterexample_exists(&l) {
            g.labels.push(l);
            g.props.push((Expectation::Eventually, g.labels.len() - 1));
        }
    }
    if g.props.is_empty() {
        case.distinct(g.structural_hash(), false);
        return;
    }
    case.distinct(g.structural_hash(), reach.count >= 3);
    let model = GraphModel(Arc::new(g));
    case.sample(|| model.summary());
    for strategy in STRATEGIES {
        let threads = *case.rng.pick(&[1usize, 2, 4]);
        let cfg = RunCfg { threads, ..RunCfg::default() };
        let out = run_checker(&model, strategy, &cfg, false);
        case.add(&format!("runs_eventually_only_{}", strategy.name()), 1);
        if !out.discoveries.is_empty() {
            // a false alarm is C11's business; the run may then have stopped early for a reason
            case.add("eventually_only_runs_with_a_discovery", 1);
            continue;
        }
        check_exhaustive_run(case, &model, &reach, strategy, threads, &out, true);
    }
}

/// The same initial state listed more than once. "Evaluated once" is only promised for distinct
/// initial states, so repeats among the visits are accepted here; the evaluated *set* must still
/// be exactly the reachable set and `unique_state_count` its size.
fn duplicate_inits_case(case: &mut Case) {
    let knobs = Knobs { max_n: 24, allow_outside_inits: false, ..Knobs::default() };
    let mut g = gen_graph(&mut case.rng, &knobs);
    if g.inits.is_empty() {
        case.distinct(g.structural_hash(), false);
        return;
    }
    for _ in 0..case.rng.range(1, 3) {
        let again = *case.rng.pick(&g.inits);
        let at = case.rng.below(g.inits.len() + 1);
        g.inits.insert(at, again);
    }
    let reach = g.reach();
    add_props_with_keepalive(&mut case.rng, &mut g, &reach, 1);
    case.distinct(g.structural_hash(), reach.count >= 2);
    let model = GraphModel(Arc::new(g));
    case.sample(|| model.summary());
    for strategy in STRATEGIES {
        let threads = *case.rng.pick(&[1usize, 2, 4]);
        let cfg = RunCfg { threads, visitor: 2, ..RunCfg::default() };
        let out = run_checker(&model, strategy, &cfg, false);
        let tag = strategy.name();
        let desc = || json!({"model": model.summary(), "strategy": tag, "threads": threads});
        if !out.finished {
            case.inconclusive(&format!("{} did not finish within the watchdog", tag));
            continue;
        }
        if !out.worker_panics.is_empty() {
            case.violation(&format!("C01/{}/worker-panicked", tag), json!({"run": desc(), "panics": out.worker_panics}));
            return;
        }
        case.add("runs_with_duplicate_initial_states", 1);
        let seen: std::collections::BTreeSet<u32> = out.visited_states.iter().copied().collect();
        for s in 0..model.n {
            if reach.reachable[s] != seen.contains(&(s as u32)) {
                let what = if reach.reachable[s] { "reachable-state-not-visited" } else { "visited-unreachable-state" };
                case.violation(&format!("C01/{}/duplicate-initial-states/{}", tag, what), json!({"run": desc(), "state": s}));
                return;
            }
        }
        if out.unique != reach.count {
            case.violation(
                &format!("C01/{}/duplicate-initial-states/unique-state-count-mismatch", tag),
                json!({"run": desc(), "unique_state_count": out.unique, "distinct_reachable_states": reach.count}),
            );
            return;
        }
        if out.state_count < out.unique {
            case.violation(&format!("C01/{}/duplicate-initial-states/state-count-below-unique", tag), json!({"run": desc()}));
            return;
        }
    }
}

pub fn run(ctx: &mut Ctx) {
    ctx.rule = "G1 random finite graphs (self-loops, joins, cycles, ignored actions, 0-3 distinct initial \
        states, boundary cuts incl. all-outside and initials-only) with a never-violated keep-alive property; \
        every model is checked by BFS, DFS and on-demand(run to completion) at two random thread counts. \
        A case is non-trivial when >=2 states are reachable and some state is generated more than once \
        (join, cycle or self-loop); distinct = distinct structural hash of the generated model. Additional sub-checks: on-demand runs with targeted check_fingerprint requests before run_to_completion; models listing an initial state more than once (set equality and unique_state_count only); 'funnel' layered graphs in which many states generate the same successors at the same time.".into();
    ctx.assumptions = vec![
        "u32 states: 64-bit fingerprint collisions are ignored".into(),
        "initial states are generated distinct, as the statement assumes".into(),
        "completion of the on-demand checker is observed through its worker threads ending (join is judged by C05/C19)".into(),
    ];
    let ctx = &*ctx;
    ctx.cases("small", ctx.n(600, 15000), 0, |case| {
        small_case(case, 24, &[1, 2, 3, 4, 8, 16]);
    });
    // Small models with a tiny block size, so that blocks are split and shared between workers
    // on graphs whose oracle is easy to inspect. The block size is a process-wide hook, so the
    // phases run one after the other.
    for bs in [1usize, 2, 3, 5, 8] {
        stateright::verif::set_block_size(bs);
        ctx.cases(&format!("small_block{}", bs), ctx.n(60, 2500), 0, |case| {
            small_case(case, 40, &[2, 3, 4, 8]);
        });
    }
    stateright::verif::set_block_size(0);
    ctx.cases("eventually_only", ctx.n(800, 12000), 0, eventually_only_case);
    ctx.cases("duplicate_initial_states", ctx.n(200, 4000), 0, duplicate_inits_case);
    ctx.cases("large_layered", ctx.n(30, 150), 2, |case| {
        let (d, w) = *case.rng.pick(&[(6usize, 2000usize), (5, 6000), (8, 4000), (4, 12000)]);
        let (d, w) = if case.ctx.quick() { (d, w) } else { (d, w * 3) };
        large_case(case, d, w);
    });
}
