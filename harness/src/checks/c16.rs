//! C16 — the ordered reliable link delivers every message exactly once, in order.

use crate::ctx::{Case, Ctx};
use crate::rng::Rng;
use serde_json::{json, Value};
use stateright::actor::ordered_reliable_link::{ActorWrapper, MsgWrapper, TimerWrapper};
use stateright::actor::{Actor, ActorModel, ActorModelAction, ActorModelState, Id, LossyNetwork, Network, Out};
use stateright::{Checker, Expectation, Model};
use std::borrow::Cow;
use std::collections::{BTreeMap, BTreeSet};
use std::time::{Duration, Instant};

/// The wrapped actor: sends scripted messages with globally unique payloads at start-up and in
/// reaction to what it is handed, and logs everything it sends and everything it is handed.
#[derive(Clone, Debug, PartialEq, Eq, Hash)]
pub struct LinkActor {
    pub start: Vec<(usize, u8)>,
    pub on_recv: BTreeMap<u8, Vec<(usize, u8)>>,
    /// Payloads whose hand-over is answered *without touching the state* (a stateless relay /
    /// echo server): the reaction is sent, nothing is logged. Every quiet payload has a
    /// non-empty reaction, so the handler is never a no-op.
    pub quiet: BTreeSet<u8>,
}

/// What the wrapped actors' handlers were actually asked to do, recorded at the handler boundary
/// (the boundary the property speaks about) while the monitor re-executes the chosen step.
#[derive(Clone, Debug, PartialEq, Eq)]
pub enum Ev {
    Handed { actor: usize, src: usize, payload: u8 },
    Sent { actor: usize, dst: usize, payload: u8 },
}

thread_local! {
    static REC: std::cell::RefCell<Option<Vec<Ev>>> = const { std::cell::RefCell::new(None) };
}

fn rec(ev: Ev) {
    REC.with(|r| {
        if let Some(v) = r.borrow_mut().as_mut() {
            v.push(ev);
        }
    });
}

/// Runs `f` with the recorder on and returns what the handlers did meanwhile.
pub fn recorded<T>(f: impl FnOnce() -> T) -> (T, Vec<Ev>) {
    REC.with(|r| *r.borrow_mut() = Some(Vec::new()));
    let out = f();
    let evs = REC.with(|r| r.borrow_mut().take()).unwrap_or_default();
    (out, evs)
}

#[derive(Clone, Debug, PartialEq, Eq, Hash, PartialOrd, Ord)]
pub struct LState {
    pub sent: Vec<(usize, u8)>,
    pub handed: Vec<(usize, u8)>,
}

impl Actor for LinkActor {
    type Msg = u8;
    type Timer = ();
    type Random = ();
    type State = LState;
    fn on_start(&self, id: Id, o: &mut Out<Self>) -> LState {
        let mut st = LState { sent: Vec::new(), handed: Vec::new() };
        for (d, m) in &self.start {
            o.send(Id::from(*d), *m);
            st.sent.push((*d, *m));
            rec(Ev::Sent { actor: usize::from(id), dst: *d, payload: *m });
        }
        st
    }
    fn on_msg(&self, id: Id, state: &mut Cow<LState>, src: Id, msg: u8, o: &mut Out<Self>) {
        let me = usize::from(id);
        rec(Ev::Handed { actor: me, src: usize::from(src), payload: msg });
        if self.quiet.contains(&msg) {
            // stateless: react, leave the state borrowed
            for (d, m) in &self.on_recv[&msg] {
                o.send(Id::from(*d), *m);
                rec(Ev::Sent { actor: me, dst: *d, payload: *m });
            }
            return;
        }
        let st = state.to_mut();
        st.handed.push((usize::from(src), msg));
        if let Some(sends) = self.on_recv.get(&msg) {
            for (d, m) in sends {
                o.send(Id::from(*d), *m);
                st.sent.push((*d, *m));
                rec(Ev::Sent { actor: me, dst: *d, payload: *m });
            }
        }
    }
}

type Wrapped = ActorWrapper<LinkActor>;
type LModel = ActorModel<Wrapped, (), ()>;
type LModelState = ActorModelState<Wrapped, ()>;
type LAction = ActorModelAction<MsgWrapper<u8>, TimerWrapper<()>, ()>;

#[derive(Clone, Debug)]
pub struct LinkSystem {
    pub actors: Vec<LinkActor>,
    /// Some sender emits an equal payload twice to one peer: messages are then identified by
    /// their position in the sequence only, and such systems are walked without overtaking (the
    /// recorded finding is told from other gaps by sequencers recovered from unique payloads).
    pub repeats: bool,
}

fn gen_link_system(rng: &mut Rng) -> LinkSystem {
    let n = rng.range(2, 3);
    // two systems in five contain stateless reactions
    let quiet_allowed = rng.pct(40);
    // one system in five sends equal payloads more than once to the same peer (the link must
    // hand over both: "the sequence handed over is a prefix of the sequence sent")
    let repeats = rng.pct(20);
    let mut next_payload = 0u8;
    let mut fresh = |_: &mut Rng| {
        next_payload += 1;
        next_payload
    };
    let mut actors: Vec<LinkActor> = (0..n).map(|_| LinkActor { start: Vec::new(), on_recv: BTreeMap::new(), quiet: BTreeSet::new() }).collect();
    // senders emit 2-5 messages at start, to one or several peers
    let senders = rng.range(1, n);
    let mut all_payloads: Vec<(usize, u8)> = Vec::new(); // (receiver, payload)
    for s in 0..senders {
        let k = rng.range(2, 5);
        let single_peer = rng.pct(60);
        let peer = (s + 1 + rng.below(n - 1)) % n;
        for _ in 0..k {
            let d = if single_peer { peer } else { (s + 1 + rng.below(n - 1)) % n };
            let again = actors[s].start.iter().rev().find(|(pd, _)| *pd == d).map(|(_, p)| *p);
            let p = match again {
                Some(p) if repeats && rng.pct(45) => p,
                _ => {
                    let p = fresh(rng);
                    all_payloads.push((d, p));
                    p
                }
            };
            actors[s].start.push((d, p));
        }
    }
    // reactions: being handed some payload triggers further sends (bounded: fresh payloads do
    // not trigger anything themselves)
    for (receiver, p) in all_payloads.clone() {
        if rng.pct(if quiet_allowed { 55 } else { 30 }) {
            let k = rng.range(1, 2);
            let mut sends = Vec::new();
            for _ in 0..k {
                let d = (receiver + 1 + rng.below(n - 1)) % n;
                sends.push((d, fresh(rng)));
            }
            actors[receiver].on_recv.insert(p, sends);
            if quiet_allowed && rng.pct(50) {
                actors[receiver].quiet.insert(p);
            }
        }
    }
    let repeats = actors.iter().any(|a| {
        let mut seen = BTreeSet::new();
        a.start.iter().any(|x| !seen.insert(*x))
    });
    LinkSystem { actors, repeats }
}

impl LinkSystem {
    fn model(&self) -> LModel {
        ActorModel::new((), ())
            .actors(self.actors.iter().cloned().map(ActorWrapper::with_default_timeout))
            .init_network(Network::new_unordered_duplicating([]))
            .lossy_network(LossyNetwork::Yes)
            .property(Expectation::Always, "handed is a prefix of sent; nothing discarded before hand-over", |m, s| {
                let quiet: Vec<BTreeSet<u8>> = m.actors.iter().map(|a| a.wrapped_actor.quiet.clone()).collect();
                check_state(s, &quiet).is_ok()
            })
    }
    fn to_json(&self) -> Value {
        json!(self.actors.iter().map(|a| json!({"start": a.start, "on_recv": format!("{:?}", a.on_recv), "stateless_on": a.quiet})).collect::<Vec<_>>())
    }
}

#[derive(Debug, Clone, PartialEq, Eq)]
pub struct LinkViolation {
    pub what: &'static str,
    pub sender: usize,
    pub receiver: usize,
    pub sent: Vec<u8>,
    pub handed: Vec<u8>,
    pub pending: Vec<u8>,
}

/// The send and hand-over logs the clauses are evaluated on: per actor, everything it emitted
/// `(dst, payload)` in emission order and everything it was handed `(src, payload)` in order.
#[derive(Clone, Debug, Default, PartialEq, Eq)]
pub struct Logs {
    pub sent: Vec<Vec<(usize, u8)>>,
    pub handed: Vec<Vec<(usize, u8)>>,
}

impl Logs {
    /// The logs the wrapped actors keep in their own state (incomplete for stateless reactions).
    pub fn from_state(s: &LModelState) -> Logs {
        Logs {
            sent: s.actor_states.iter().map(|a| a.verif_wrapped_state().sent.clone()).collect(),
            handed: s.actor_states.iter().map(|a| a.verif_wrapped_state().handed.clone()).collect(),
        }
    }
    pub fn apply(&mut self, evs: &[Ev]) {
        for ev in evs {
            match ev {
                Ev::Handed { actor, src, payload } => self.handed[*actor].push((*src, *payload)),
                Ev::Sent { actor, dst, payload } => self.sent[*actor].push((*dst, *payload)),
            }
        }
    }
}

/// The two safety clauses of the property, evaluated on one state from the logs kept in the
/// wrapped actors' states (first violation). `quiet[i]` = payloads actor i answers statelessly.
pub fn check_state(s: &LModelState, quiet: &[BTreeSet<u8>]) -> Result<(), LinkViolation> {
    match check_logs(s, &Logs::from_state(s), Some(quiet)).into_iter().next() {
        Some(v) => Err(v),
        None => Ok(()),
    }
}

/// All violations of the two safety clauses at one state, one per (sender, receiver) pair,
/// classified from the most specific to the least.
///
/// With `quiet == None` the logs are complete (recorded at the handler boundary). With
/// `Some(quiet)` they come from the actors' own states and lack what stateless reactions did:
/// a sender with stateless reactions is then only judged on duplicates at its receivers (its
/// send log is incomplete; a duplicate still shows that it was handed something twice, because
/// payloads are globally unique and every reaction is emitted once per hand-over), and payloads
/// the receiver answers statelessly are projected away (a prefix stays a prefix under projection).
pub fn check_logs(s: &LModelState, logs: &Logs, quiet: Option<&[BTreeSet<u8>]>) -> Vec<LinkViolation> {
    let mut out = Vec::new();
    let n = s.actor_states.len();
    for sender in 0..n {
        let ss = &s.actor_states[sender];
        let pending: Vec<(u64, usize, u8)> = ss.verif_pending_ack().into_iter().map(|(q, d, m)| (q, usize::from(d), *m)).collect();
        let sender_incomplete = quiet.map(|q| !q[sender].is_empty()).unwrap_or(false);
        for receiver in 0..n {
            if receiver == sender {
                continue;
            }
            let hidden = |m: &u8| quiet.map(|q| q[receiver].contains(m)).unwrap_or(false);
            let sent: Vec<u8> = logs.sent[sender].iter().filter(|(d, m)| *d == receiver && !hidden(m)).map(|(_, m)| *m).collect();
            let handed: Vec<u8> = logs.handed[receiver].iter().filter(|(src, _)| *src == sender).map(|(_, m)| *m).collect();
            let pend: Vec<u8> = pending.iter().filter(|(_, d, m)| *d == receiver && !hidden(m)).map(|(_, _, m)| *m).collect();
            let mk = |what| LinkViolation { what, sender, receiver, sent: sent.clone(), handed: handed.clone(), pending: pend.clone() };
            // classify from the most specific to the least (payloads may repeat: everything is
            // stated on sequences and multiplicities)
            let count = |v: &[u8], m: u8| v.iter().filter(|x| **x == m).count();
            if handed.iter().any(|m| count(&sent, *m) >= 1 && count(&handed, *m) > count(&sent, *m)) {
                out.push(mk("message-handed-over-twice"));
                continue;
            }
            if sender_incomplete {
                continue;
            }
            if handed.iter().any(|m| !sent.contains(m)) {
                out.push(mk("message-handed-over-that-was-never-sent-to-this-peer"));
                continue;
            }
            // order: `handed` must be a subsequence of `sent`
            let mut at = 0usize;
            let mut subsequence = true;
            for m in &handed {
                match sent[at..].iter().position(|x| x == m) {
                    Some(p) => at += p + 1,
                    None => {
                        subsequence = false;
                        break;
                    }
                }
            }
            if !subsequence {
                out.push(mk("messages-handed-over-out-of-order"));
                continue;
            }
            // prefix: no gaps
            if handed.len() > sent.len() || handed[..] != sent[..handed.len()] {
                out.push(mk("gap:later-message-handed-over-before-an-earlier-one"));
                continue;
            }
            // acknowledged and discarded before hand-over
            if sent.iter().any(|m| count(&sent, *m) > count(&handed, *m) + count(&pend, *m)) {
                out.push(mk("gap:message-acknowledged-and-discarded-before-hand-over"));
            }
        }
    }
    out
}

/// Is this violation the recorded finding (a message overtaken by one with a higher sequencer is
/// acknowledged, discarded by the sender and never handed over)? True iff the hand-over sequence
/// is duplicate-free and in order, and every skipped message has a sequencer below the last one
/// handed over at the receiver. `logs.sent[sender]` must be complete (it is whenever a `gap:`
/// clause was judged at all).
fn is_overtaking_finding(s: &LModelState, v: &LinkViolation, logs: &Logs) -> bool {
    if !v.what.starts_with("gap:") {
        return false;
    }
    {
        // sequencers can only be recovered from the send log when payloads are unique
        let mut seen = BTreeSet::new();
        if logs.sent[v.sender].iter().any(|(_, m)| !seen.insert(*m)) {
            return false;
        }
    }
    let last = s.actor_states[v.receiver]
        .verif_last_delivered()
        .into_iter()
        .find(|(src, _)| usize::from(*src) == v.sender)
        .map(|(_, q)| q)
        .unwrap_or(0);
    // sequencers are assigned in emission order over all peers: recover them from the send log
    let all_sent = &logs.sent[v.sender];
    let seq_of = |m: u8| all_sent.iter().position(|(_, x)| *x == m).map(|i| i as u64 + 1).unwrap_or(u64::MAX);
    v.sent
        .iter()
        .filter(|m| !v.handed.contains(m))
        .filter(|m| {
            // skipped = a later message was handed over, or it is no longer pending
            !v.pending.contains(m) || v.handed.iter().any(|h| seq_of(*h) > seq_of(**m))
        })
        .all(|m| seq_of(*m) < last)
}

const FINDING: &str = "C16/link/message-overtaken-by-a-higher-sequencer-is-acknowledged-and-never-handed-over";

fn report(case: &Case, sys: &LinkSystem, s: &LModelState, v: &LinkViolation, logs: &Logs, trace: &[String], via: &str) {
    let signature = if is_overtaking_finding(s, v, logs) {
        FINDING.to_string()
    } else {
        format!("C16/link/{}", v.what)
    };
    case.violation(
        &signature,
        json!({"system": sys.to_json(), "found_by": via, "sender": v.sender, "receiver": v.receiver, "sent_to_peer": v.sent,
               "handed_over": v.handed, "pending_ack": v.pending, "clause": v.what, "trace": trace}),
    );
}

fn seq_of_action(a: &LAction) -> u64 {
    match a {
        ActorModelAction::Deliver { msg: MsgWrapper::Deliver(q, _), .. } => *q,
        _ => 0,
    }
}

fn walk_case(case: &mut Case) {
    let sys = gen_link_system(&mut case.rng);
    let model = sys.model();
    case.sample(|| sys.to_json());
    let profile = if sys.repeats { 4 } else { case.rng.below(5) }; // 0 reorder hard, 1 duplicate/resend, 2 drop-heavy, 3 uniform, 4 in-order with duplicates and loss
    let mut deliveries = 0;
    let mut hand_overs = 0u64;
    let mut stateless_hand_overs = 0u64;
    let mut reordered = false;
    let mut finding_reported = false;
    let quiet: Vec<BTreeSet<u8>> = sys.actors.iter().map(|a| a.quiet.clone()).collect();
    let any_quiet = quiet.iter().any(|q| !q.is_empty());
    for _ in 0..3 {
        // the logs are recorded at the wrapped actors' handler boundary while the chosen step
        // is re-executed; start-up counts
        let (inits, evs) = recorded(|| model.init_states());
        let mut s = inits.into_iter().next().unwrap();
        let mut logs = Logs { sent: vec![Vec::new(); sys.actors.len()], handed: vec![Vec::new(); sys.actors.len()] };
        logs.apply(&evs);
        let mut trace: Vec<String> = Vec::new();
        let mut last_seq: BTreeMap<(Id, Id), u64> = BTreeMap::new();
        for _ in 0..case.rng.range(20, 70) {
            case.add("states_monitored", 1);
            let violations = check_logs(&s, &logs, None);
            // anything that is not the recorded finding ends the case; the recorded finding is
            // reported once and the walk goes on, so that other violations stay observable
            if let Some(v) = violations.iter().find(|v| !is_overtaking_finding(&s, v, &logs)) {
                report(case, &sys, &s, v, &logs, &trace, "hostile walk");
                case.distinct(crate::ctx::hash_of(&format!("{:?}", sys.actors)), true);
                return;
            }
            if let Some(v) = violations.first() {
                if !finding_reported {
                    finding_reported = true;
                    report(case, &sys, &s, v, &logs, &trace, "hostile walk");
                }
            }
            // the state-kept logs must be what the handlers produced (all of it when no reaction
            // is stateless): the link may not lose or alter the wrapped actor's state
            if !any_quiet && Logs::from_state(&s) != logs {
                case.violation(
                    "C16/link/wrapped-actor-state-differs-from-what-its-handlers-produced",
                    json!({"system": sys.to_json(), "state_logs": format!("{:?}", Logs::from_state(&s)), "handler_logs": format!("{:?}", logs), "trace": trace}),
                );
                return;
            }
            // and the state-based reading used by the checker sub-check must never be stricter
            // than the complete logs (soundness of the projection for stateless reactions)
            if any_quiet && violations.is_empty() {
                if let Err(v) = check_state(&s, &quiet) {
                    case.inconclusive(&format!("state-based reading reports '{}' where the complete logs are clean (harness defect)", v.what));
                    return;
                }
            }
            let steps = model.next_steps(&s);
            if steps.is_empty() {
                break;
            }
            // lowest sequencer in flight per directed pair (for the in-order profile)
            let mut lowest: BTreeMap<(Id, Id), u64> = BTreeMap::new();
            for (a, _) in &steps {
                if let ActorModelAction::Deliver { src, dst, msg: MsgWrapper::Deliver(q, _) } = a {
                    let e = lowest.entry((*src, *dst)).or_insert(*q);
                    *e = (*e).min(*q);
                }
            }
            let weights: Vec<u64> = steps
                .iter()
                .map(|(a, _)| match (profile, a) {
                    (4, ActorModelAction::Deliver { src, dst, msg: MsgWrapper::Deliver(q, _) }) => {
                        // never let a message overtake an earlier one that is still in flight;
                        // redeliveries of old ones are welcome
                        if *q <= lowest[&(*src, *dst)] || *q <= *last_seq.get(&(*src, *dst)).unwrap_or(&0) { 8 } else { 0 }
                    }
                    (4, ActorModelAction::Drop(e)) => {
                        if matches!(e.msg, MsgWrapper::Deliver(..)) { 0 } else { 2 }
                    }
                    (4, ActorModelAction::Timeout(..)) => 3,
                    (0, ActorModelAction::Deliver { msg: MsgWrapper::Deliver(q, _), .. }) => 1 + q * q * 4,
                    (0, ActorModelAction::Deliver { msg: MsgWrapper::Ack(_), .. }) => 6,
                    (1, ActorModelAction::Timeout(..)) => 8,
                    (1, ActorModelAction::Deliver { .. }) => 6,
                    (2, ActorModelAction::Drop(_)) => 6,
                    (_, ActorModelAction::Drop(_)) => 1,
                    _ => 3,
                })
                .collect();
            let total: u64 = weights.iter().sum();
            let mut pick = case.rng.next_u64() % total;
            let mut idx = 0;
            for (i, w) in weights.iter().enumerate() {
                if pick < *w {
                    idx = i;
                    break;
                }
                pick -= w;
            }
            let (a, _) = steps.into_iter().nth(idx).unwrap();
            // re-execute the chosen step with the recorder on
            let (next, evs) = recorded(|| model.next_state(&s, a.clone()));
            let Some(next) = next else {
                case.inconclusive("chosen step could not be re-executed");
                return;
            };
            if evs.iter().any(|e| matches!(e, Ev::Handed { .. })) {
                hand_overs += 1;
                if evs.iter().any(|e| matches!(e, Ev::Handed { actor, payload, .. } if quiet[*actor].contains(payload))) {
                    stateless_hand_overs += 1;
                }
            }
            logs.apply(&evs);
            if let ActorModelAction::Deliver { src, dst, msg: MsgWrapper::Deliver(q, _) } = &a {
                deliveries += 1;
                let e = last_seq.entry((*src, *dst)).or_insert(0);
                if *q < *e {
                    reordered = true;
                }
                *e = (*e).max(*q);
            }
            let _ = seq_of_action(&a);
            trace.push(format!("{:?}", a));
            s = next;
        }
        // Bounded progress ("once all retransmissions are acknowledged the two sequences are
        // equal"): from wherever the hostile walk ended, faults stop and a fair schedule runs -
        // every resend timer fires, then everything in flight is delivered lowest sequencer
        // first (so nothing overtakes anything), for a few rounds. A correct link then has
        // handed over everything that was sent and has nothing left pending. Skipped when the
        // recorded finding already struck in this case (a skipped message never arrives).
        if finding_reported || !check_logs(&s, &logs, None).is_empty() {
            continue;
        }
        let mut complete = false;
        for _round in 0..40 {
            let timeouts: Vec<LAction> = model.next_steps(&s).into_iter().map(|(a, _)| a).filter(|a| matches!(a, ActorModelAction::Timeout(..))).collect();
            for a in timeouts {
                let (next, evs) = recorded(|| model.next_state(&s, a.clone()));
                if let Some(next) = next {
                    logs.apply(&evs);
                    trace.push(format!("drain {:?}", a));
                    s = next;
                }
            }
            let mut deliveries: Vec<LAction> = model.next_steps(&s).into_iter().map(|(a, _)| a).filter(|a| matches!(a, ActorModelAction::Deliver { .. })).collect();
            deliveries.sort_by_key(|a| match a {
                ActorModelAction::Deliver { msg: MsgWrapper::Deliver(q, _), .. } => (0, *q),
                ActorModelAction::Deliver { msg: MsgWrapper::Ack(q), .. } => (1, *q),
                _ => (2, 0),
            });
            for a in deliveries {
                let (next, evs) = recorded(|| model.next_state(&s, a.clone()));
                if let Some(next) = next {
                    logs.apply(&evs);
                    trace.push(format!("drain {:?}", a));
                    s = next;
                }
            }
            case.add("drain_rounds", 1);
            let all_equal = (0..sys.actors.len()).all(|a| {
                (0..sys.actors.len()).all(|b| {
                    a == b || {
                        let sent: Vec<u8> = logs.sent[a].iter().filter(|(d, _)| *d == b).map(|(_, m)| *m).collect();
                        let handed: Vec<u8> = logs.handed[b].iter().filter(|(src, _)| *src == a).map(|(_, m)| *m).collect();
                        sent == handed
                    }
                })
            });
            let nothing_pending = s.actor_states.iter().all(|a| a.verif_pending_ack().is_empty());
            if let Some(v) = check_logs(&s, &logs, None).into_iter().next() {
                // a safety violation during the fault-free continuation is a violation like any other
                report(case, &sys, &s, &v, &logs, &trace, "fault-free continuation of a hostile walk");
                return;
            }
            if all_equal && nothing_pending {
                complete = true;
                break;
            }
        }
        case.add("drains_run", 1);
        if complete {
            case.add("drains_completed", 1);
        } else {
            case.violation(
                "C16/link/fair-fault-free-continuation-never-completes-the-hand-over",
                json!({"system": sys.to_json(), "handler_logs": format!("{:?}", logs),
                       "pending": s.actor_states.iter().map(|a| format!("{:?}", a.verif_pending_ack())).collect::<Vec<_>>(),
                       "trace_tail": trace.iter().rev().take(40).rev().collect::<Vec<_>>(),
                       "note": "40 rounds of: fire every enabled timer, then deliver everything in flight, lowest sequencer first; no drops"}),
            );
            return;
        }
    }
    case.add(&format!("walk_profile_{}", profile), 1);
    case.add("hand_overs_observed", hand_overs);
    case.add("stateless_hand_overs_observed", stateless_hand_overs);
    if any_quiet {
        case.add("walks_with_stateless_reactions", 1);
    }
    if sys.repeats {
        case.add("walks_with_repeated_payloads", 1);
    }
    case.distinct(crate::ctx::hash_of(&format!("{:?}", sys.actors)) ^ profile as u64, deliveries >= 4 && (reordered || profile == 4));
}

fn checker_case(case: &mut Case) {
    let mut sys = gen_link_system(&mut case.rng);
    while sys.repeats {
        sys = gen_link_system(&mut case.rng);
    }
    case.sample(|| sys.to_json());
    case.distinct(crate::ctx::hash_of(&format!("{:?}", sys.actors)), true);
    let model = sys.model();
    let limit = if case.ctx.quick() { 30_000 } else { 300_000 };
    let mut checker = model.checker().threads(4).target_state_count(limit).spawn_bfs();
    let hs = checker.handles();
    let t = Instant::now();
    while hs.iter().any(|h| !h.is_finished()) {
        if t.elapsed() > Duration::from_secs(120) {
            case.inconclusive("BFS over the link model did not finish within the watchdog");
            return;
        }
        std::thread::sleep(Duration::from_millis(2));
    }
    case.add("checker_states_generated", checker.state_count() as u64);
    case.add("checker_runs", 1);
    let discovery = match crate::ctx::guarded(|| checker.discoveries()) {
        Ok(d) => d.into_iter().next(),
        Err(msg) => {
            case.violation("C16/link/checker-panicked", json!({"system": sys.to_json(), "panic": msg}));
            return;
        }
    };
    if let Some((_, path)) = discovery {
        let s = path.last_state().clone();
        let trace: Vec<String> = path.into_actions().iter().map(|a| format!("{:?}", a)).collect();
        let quiet: Vec<BTreeSet<u8>> = sys.actors.iter().map(|a| a.quiet.clone()).collect();
        match check_state(&s, &quiet) {
            Err(v) => report(case, &sys, &s, &v, &Logs::from_state(&s), &trace, "breadth-first check of the always-property"),
            Ok(()) => case.inconclusive("checker reported a counterexample whose last state satisfies the monitor"),
        }
    }
}

pub fn run(ctx: &mut Ctx) {
    ctx.rule = "2-3 link-wrapped actors over an unordered, duplicating, lossy network; senders emit 2-5 messages with \
        globally unique payloads at start-up (to one or several peers) and further ones in reaction to hand-overs; \
        wrapped actors log what they send and what they are handed. (walk) hostile schedulers - deliver the \
        highest sequencer first, fire the resend timer and redeliver, drop - with the two safety clauses checked \
        at every state: the hand-over sequence per (sender, receiver) is a prefix of the send sequence, and no \
        message has left the sender's pending set without having been handed over. (checker) the same clauses as \
        an always-property searched by the real multi-threaded BFS. A fifth profile never lets a message overtake an earlier one in flight but duplicates, \
        resends and loses acknowledgements, so that exactly-once is exercised where the recorded finding cannot \
        interfere. Non-trivial: >= 4 deliveries with at least one delivered out of sequencer order (or the in-order profile). Sends and hand-overs are recorded at the wrapped actors' handler boundary (recorder active while the chosen step is re-executed); two systems in five contain stateless reactions, one in five repeats payloads (clauses on sequences and multiplicities); every walk ends with a fair fault-free continuation (8 rounds: all timers fire, everything in flight delivered lowest sequencer first) after which sent == handed over and nothing is pending.".into();
    ctx.assumptions = vec![
        "the equality clause ('once all retransmissions are acknowledged the sequences are equal') is checked as its safety core: a message that is neither pending nor handed over can never become equal".into(),
        "actors do not restart (as the statement assumes)".into(),
    ];
    let ctx = &*ctx;
    ctx.cases("walk", ctx.n(5000, 300000), 0, walk_case);
    ctx.cases("checker", ctx.n(12, 300), 3, checker_case);
}
