//! C16 — the ordered reliable link delivers every message exactly once, in order.

use crate::ctx::{Case, Ctx};
use crate::rng::Rng;
use serde_json::{json, Value};
use stateright::actor::ordered_reliable_link::{ActorWrapper, MsgWrapper, TimerWrapper};
use stateright::actor::{Actor, ActorModel, ActorModelAction, ActorModelState, Id, LossyNetwork, Network, Out};
use stateright::{Checker, Expectation, Model};
use std::borrow::Cow;
use std::collections::{BTreeMap, BTreeSet};
use std::time::{Duration, Instant};

/// The wrapped actor: sends scripted messages with globally unique payloads at start-up and in
/// reaction to what it is handed, and logs everything it sends and everything it is handed.
#[derive(Clone, Debug, PartialEq, Eq, Hash)]
pub struct LinkActor {
    pub start: Vec<(usize, u8)>,
    pub on_recv: BTreeMap<u8, Vec<(usize, u8)>>,
}

#[derive(Clone, Debug, PartialEq, Eq, Hash, PartialOrd, Ord)]
pub struct LState {
    pub sent: Vec<(usize, u8)>,
    pub handed: Vec<(usize, u8)>,
}

impl Actor for LinkActor {
    type Msg = u8;
    type Timer = ();
    type Random = ();
    type State = LState;
    fn on_start(&self, _id: Id, o: &mut Out<Self>) -> LState {
        let mut st = LState { sent: Vec::new(), handed: Vec::new() };
        for (d, m) in &self.start {
            o.send(Id::from(*d), *m);
            st.sent.push((*d, *m));
        }
        st
    }
    fn on_msg(&self, _id: Id, state: &mut Cow<LState>, src: Id, msg: u8, o: &mut Out<Self>) {
        let st = state.to_mut();
        st.handed.push((usize::from(src), msg));
        if let Some(sends) = self.on_recv.get(&msg) {
            for (d, m) in sends {
                o.send(Id::from(*d), *m);
                st.sent.push((*d, *m));
            }
        }
    }
}

type Wrapped = ActorWrapper<LinkActor>;
type LModel = ActorModel<Wrapped, (), ()>;
type LModelState = ActorModelState<Wrapped, ()>;
type LAction = ActorModelAction<MsgWrapper<u8>, TimerWrapper<()>, ()>;

#[derive(Clone, Debug)]
pub struct LinkSystem {
    pub actors: Vec<LinkActor>,
}

fn gen_link_system(rng: &mut Rng) -> LinkSystem {
    let n = rng.range(2, 3);
    let mut next_payload = 0u8;
    let mut fresh = |_: &mut Rng| {
        next_payload += 1;
        next_payload
    };
    let mut actors: Vec<LinkActor> = (0..n).map(|_| LinkActor { start: Vec::new(), on_recv: BTreeMap::new() }).collect();
    // senders emit 2-5 messages at start, to one or several peers
    let senders = rng.range(1, n);
    let mut all_payloads: Vec<(usize, u8)> = Vec::new(); // (receiver, payload)
    for s in 0..senders {
        let k = rng.range(2, 5);
        let single_peer = rng.pct(60);
        let peer = (s + 1 + rng.below(n - 1)) % n;
        for _ in 0..k {
            let d = if single_peer { peer } else { (s + 1 + rng.below(n - 1)) % n };
            let p = fresh(rng);
            actors[s].start.push((d, p));
            all_payloads.push((d, p));
        }
    }
    // reactions: being handed some payload triggers further sends (bounded: fresh payloads do
    // not trigger anything themselves)
    for (receiver, p) in all_payloads.clone() {
        if rng.pct(30) {
            let k = rng.range(1, 2);
            let mut sends = Vec::new();
            for _ in 0..k {
                let d = (receiver + 1 + rng.below(n - 1)) % n;
                sends.push((d, fresh(rng)));
            }
            actors[receiver].on_recv.insert(p, sends);
        }
    }
    LinkSystem { actors }
}

impl LinkSystem {
    fn model(&self) -> LModel {
        ActorModel::new((), ())
            .actors(self.actors.iter().cloned().map(ActorWrapper::with_default_timeout))
            .init_network(Network::new_unordered_duplicating([]))
            .lossy_network(LossyNetwork::Yes)
            .property(Expectation::Always, "handed is a prefix of sent; nothing discarded before hand-over", |_, s| check_state(s).is_ok())
    }
    fn to_json(&self) -> Value {
        json!(self.actors.iter().map(|a| json!({"start": a.start, "on_recv": format!("{:?}", a.on_recv)})).collect::<Vec<_>>())
    }
}

#[derive(Debug, Clone, PartialEq, Eq)]
pub struct LinkViolation {
    pub what: &'static str,
    pub sender: usize,
    pub receiver: usize,
    pub sent: Vec<u8>,
    pub handed: Vec<u8>,
    pub pending: Vec<u8>,
}

/// The two safety clauses of the property, evaluated on one state (first violation).
pub fn check_state(s: &LModelState) -> Result<(), LinkViolation> {
    match check_state_all(s).into_iter().next() {
        Some(v) => Err(v),
        None => Ok(()),
    }
}

/// All violations of the two safety clauses at one state, one per (sender, receiver) pair,
/// classified from the most specific to the least.
pub fn check_state_all(s: &LModelState) -> Vec<LinkViolation> {
    let mut out = Vec::new();
    let n = s.actor_states.len();
    for sender in 0..n {
        let ss = &s.actor_states[sender];
        let pending: Vec<(u64, usize, u8)> = ss.verif_pending_ack().into_iter().map(|(q, d, m)| (q, usize::from(d), *m)).collect();
        for receiver in 0..n {
            if receiver == sender {
                continue;
            }
            let sent: Vec<u8> = ss.verif_wrapped_state().sent.iter().filter(|(d, _)| *d == receiver).map(|(_, m)| *m).collect();
            let handed: Vec<u8> = s.actor_states[receiver]
                .verif_wrapped_state()
                .handed
                .iter()
                .filter(|(src, _)| *src == sender)
                .map(|(_, m)| *m)
                .collect();
            let pend: Vec<u8> = pending.iter().filter(|(_, d, _)| *d == receiver).map(|(_, _, m)| *m).collect();
            let mk = |what| LinkViolation { what, sender, receiver, sent: sent.clone(), handed: handed.clone(), pending: pend.clone() };
            // classify from the most specific to the least
            let distinct: BTreeSet<u8> = handed.iter().copied().collect();
            if distinct.len() != handed.len() {
                out.push(mk("message-handed-over-twice"));
                continue;
            }
            if handed.iter().any(|m| !sent.contains(m)) {
                out.push(mk("message-handed-over-that-was-never-sent-to-this-peer"));
                continue;
            }
            // order: positions in `sent` must increase
            let pos: Vec<usize> = handed.iter().map(|m| sent.iter().position(|x| x == m).unwrap()).collect();
            if pos.windows(2).any(|w| w[0] > w[1]) {
                out.push(mk("messages-handed-over-out-of-order"));
                continue;
            }
            // prefix: no gaps
            if pos.iter().enumerate().any(|(i, p)| *p != i) {
                out.push(mk("gap:later-message-handed-over-before-an-earlier-one"));
                continue;
            }
            // acknowledged and discarded before hand-over
            if sent.iter().any(|m| !pend.contains(m) && !handed.contains(m)) {
                out.push(mk("gap:message-acknowledged-and-discarded-before-hand-over"));
            }
        }
    }
    out
}

/// Is this violation the recorded finding (a message overtaken by one with a higher sequencer is
/// acknowledged, discarded by the sender and never handed over)? True iff the hand-over sequence
/// is duplicate-free and in order, and every skipped message has a sequencer below the last one
/// handed over at the receiver.
fn is_overtaking_finding(s: &LModelState, v: &LinkViolation) -> bool {
    if !v.what.starts_with("gap:") {
        return false;
    }
    let last = s.actor_states[v.receiver]
        .verif_last_delivered()
        .into_iter()
        .find(|(src, _)| usize::from(*src) == v.sender)
        .map(|(_, q)| q)
        .unwrap_or(0);
    // sequencers are assigned in emission order over all peers: recover them from the send log
    let all_sent = &s.actor_states[v.sender].verif_wrapped_state().sent;
    let seq_of = |m: u8| all_sent.iter().position(|(_, x)| *x == m).map(|i| i as u64 + 1).unwrap_or(u64::MAX);
    v.sent
        .iter()
        .filter(|m| !v.handed.contains(m))
        .filter(|m| {
            // skipped = a later message was handed over, or it is no longer pending
            !v.pending.contains(m) || v.handed.iter().any(|h| seq_of(*h) > seq_of(**m))
        })
        .all(|m| seq_of(*m) < last)
}

const FINDING: &str = "C16/link/message-overtaken-by-a-higher-sequencer-is-acknowledged-and-never-handed-over";

fn report(case: &Case, sys: &LinkSystem, s: &LModelState, v: &LinkViolation, trace: &[String], via: &str) {
    let signature = if is_overtaking_finding(s, v) {
        FINDING.to_string()
    } else {
        format!("C16/link/{}", v.what)
    };
    case.violation(
        &signature,
        json!({"system": sys.to_json(), "found_by": via, "sender": v.sender, "receiver": v.receiver, "sent_to_peer": v.sent,
               "handed_over": v.handed, "pending_ack": v.pending, "clause": v.what, "trace": trace}),
    );
}

fn seq_of_action(a: &LAction) -> u64 {
    match a {
        ActorModelAction::Deliver { msg: MsgWrapper::Deliver(q, _), .. } => *q,
        _ => 0,
    }
}

fn walk_case(case: &mut Case) {
    let sys = gen_link_system(&mut case.rng);
    let model = sys.model();
    case.sample(|| sys.to_json());
    let profile = case.rng.below(5); // 0 reorder hard, 1 duplicate/resend, 2 drop-heavy, 3 uniform, 4 in-order with duplicates and loss
    let mut deliveries = 0;
    let mut reordered = false;
    let mut finding_reported = false;
    for _ in 0..3 {
        let mut s = model.init_states().into_iter().next().unwrap();
        let mut trace: Vec<String> = Vec::new();
        let mut last_seq: BTreeMap<(Id, Id), u64> = BTreeMap::new();
        for _ in 0..case.rng.range(20, 70) {
            case.add("states_monitored", 1);
            let violations = check_state_all(&s);
            // anything that is not the recorded finding ends the case; the recorded finding is
            // reported once and the walk goes on, so that other violations stay observable
            if let Some(v) = violations.iter().find(|v| !is_overtaking_finding(&s, v)) {
                report(case, &sys, &s, v, &trace, "hostile walk");
                case.distinct(crate::ctx::hash_of(&format!("{:?}", sys.actors)), true);
                return;
            }
            if let Some(v) = violations.first() {
                if !finding_reported {
                    finding_reported = true;
                    report(case, &sys, &s, v, &trace, "hostile walk");
                }
            }
            let steps = model.next_steps(&s);
            if steps.is_empty() {
                break;
            }
            // lowest sequencer in flight per directed pair (for the in-order profile)
            let mut lowest: BTreeMap<(Id, Id), u64> = BTreeMap::new();
            for (a, _) in &steps {
                if let ActorModelAction::Deliver { src, dst, msg: MsgWrapper::Deliver(q, _) } = a {
                    let e = lowest.entry((*src, *dst)).or_insert(*q);
                    *e = (*e).min(*q);
                }
            }
            let weights: Vec<u64> = steps
                .iter()
                .map(|(a, _)| match (profile, a) {
                    (4, ActorModelAction::Deliver { src, dst, msg: MsgWrapper::Deliver(q, _) }) => {
                        // never let a message overtake an earlier one that is still in flight;
                        // redeliveries of old ones are welcome
                        if *q <= lowest[&(*src, *dst)] || *q <= *last_seq.get(&(*src, *dst)).unwrap_or(&0) { 8 } else { 0 }
                    }
                    (4, ActorModelAction::Drop(e)) => {
                        if matches!(e.msg, MsgWrapper::Deliver(..)) { 0 } else { 2 }
                    }
                    (4, ActorModelAction::Timeout(..)) => 3,
                    (0, ActorModelAction::Deliver { msg: MsgWrapper::Deliver(q, _), .. }) => 1 + q * q * 4,
                    (0, ActorModelAction::Deliver { msg: MsgWrapper::Ack(_), .. }) => 6,
                    (1, ActorModelAction::Timeout(..)) => 8,
                    (1, ActorModelAction::Deliver { .. }) => 6,
                    (2, ActorModelAction::Drop(_)) => 6,
                    (_, ActorModelAction::Drop(_)) => 1,
                    _ => 3,
                })
                .collect();
            let total: u64 = weights.iter().sum();
            let mut pick = case.rng.next_u64() % total;
            let mut idx = 0;
            for (i, w) in weights.iter().enumerate() {
                if pick < *w {
                    idx = i;
                    break;
                }
                pick -= w;
            }
            let (a, next) = steps.into_iter().nth(idx).unwrap();
            if let ActorModelAction::Deliver { src, dst, msg: MsgWrapper::Deliver(q, _) } = &a {
                deliveries += 1;
                let e = last_seq.entry((*src, *dst)).or_insert(0);
                if *q < *e {
                    reordered = true;
                }
                *e = (*e).max(*q);
            }
            let _ = seq_of_action(&a);
            trace.push(format!("{:?}", a));
            s = next;
        }
    }
    case.add(&format!("walk_profile_{}", profile), 1);
    case.distinct(crate::ctx::hash_of(&format!("{:?}", sys.actors)) ^ profile as u64, deliveries >= 4 && (reordered || profile == 4));
}

fn checker_case(case: &mut Case) {
    let sys = gen_link_system(&mut case.rng);
    case.sample(|| sys.to_json());
    case.distinct(crate::ctx::hash_of(&format!("{:?}", sys.actors)), true);
    let model = sys.model();
    let limit = if case.ctx.quick() { 30_000 } else { 300_000 };
    let mut checker = model.checker().threads(4).target_state_count(limit).spawn_bfs();
    let hs = checker.handles();
    let t = Instant::now();
    while hs.iter().any(|h| !h.is_finished()) {
        if t.elapsed() > Duration::from_secs(120) {
            case.inconclusive("BFS over the link model did not finish within the watchdog");
            return;
        }
        std::thread::sleep(Duration::from_millis(2));
    }
    case.add("checker_states_generated", checker.state_count() as u64);
    case.add("checker_runs", 1);
    let discovery = match crate::ctx::guarded(|| checker.discoveries()) {
        Ok(d) => d.into_iter().next(),
        Err(msg) => {
            case.violation("C16/link/checker-panicked", json!({"system": sys.to_json(), "panic": msg}));
            return;
        }
    };
    if let Some((_, path)) = discovery {
        let s = path.last_state().clone();
        let trace: Vec<String> = path.into_actions().iter().map(|a| format!("{:?}", a)).collect();
        match check_state(&s) {
            Err(v) => report(case, &sys, &s, &v, &trace, "breadth-first check of the always-property"),
            Ok(()) => case.inconclusive("checker reported a counterexample whose last state satisfies the monitor"),
        }
    }
}

pub fn run(ctx: &mut Ctx) {
    ctx.rule = "2-3 link-wrapped actors over an unordered, duplicating, lossy network; senders emit 2-5 messages with \
        globally unique payloads at start-up (to one or several peers) and further ones in reaction to hand-overs; \
        wrapped actors log what they send and what they are handed. (walk) hostile schedulers - deliver the \
        highest sequencer first, fire the resend timer and redeliver, drop - with the two safety clauses checked \
        at every state: the hand-over sequence per (sender, receiver) is a prefix of the send sequence, and no \
        message has left the sender's pending set without having been handed over. (checker) the same clauses as \
        an always-property searched by the real multi-threaded BFS. A fifth profile never lets a message overtake an earlier one in flight but duplicates, \
        resends and loses acknowledgements, so that exactly-once is exercised where the recorded finding cannot \
        interfere. Non-trivial: >= 4 deliveries with at least one delivered out of sequencer order (or the in-order profile)."
        .into();
    ctx.assumptions = vec![
        "the equality clause ('once all retransmissions are acknowledged the sequences are equal') is checked as its safety core: a message that is neither pending nor handed over can never become equal".into(),
        "actors do not restart (as the statement assumes)".into(),
    ];
    let ctx = &*ctx;
    ctx.cases("walk", ctx.n(5000, 80000), 0, walk_case);
    ctx.cases("checker", ctx.n(12, 120), 3, checker_case);
}
