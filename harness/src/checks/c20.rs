//! C20 — vector clocks and dense maps obey their algebraic laws.

use crate::ctx::{guarded, hash_of, Case, Ctx};
use crate::rechash::{fp, stream_of};
use crate::rng::Rng;
use serde_json::json;
use stateright::actor::Id;
use stateright::util::{DenseNatMap, VectorClock};
use stateright::{Rewrite, RewritePlan};
use std::cmp::Ordering;

fn clock(v: &[u32]) -> VectorClock {
    VectorClock::from(v.to_vec())
}

fn gen_vec(rng: &mut Rng) -> Vec<u32> {
    let len = rng.below(6);
    let big = rng.pct(15);
    // counters from the whole u32 range, clustered around the values where a signed or truncated comparison
    // would go wrong (a clock component is an unsigned 32-bit counter; the order is defined on all of them)
    let huge = !big && rng.pct(15);
    const EDGES: [u32; 9] = [0, 1, 2, (1 << 31) - 1, 1 << 31, (1 << 31) + 1, 3_000_000_000, u32::MAX - 1, u32::MAX];
    let mut v: Vec<u32> = (0..len)
        .map(|_| {
            if huge {
                if rng.pct(60) { EDGES[rng.below(EDGES.len())] } else { rng.next_u64() as u32 }
            } else if big {
                (rng.next_u64() % 1_000_000) as u32
            } else {
                rng.below(4) as u32
            }
        })
        .collect();
    if rng.pct(35) {
        for _ in 0..rng.range(1, 3) {
            v.push(0); // trailing zeros
        }
    }
    v
}

/// A vector related to `a`: equal up to padding, dominated, dominating, or one component moved.
fn gen_related(rng: &mut Rng, a: &[u32]) -> Vec<u32> {
    let mut b = a.to_vec();
    match rng.below(6) {
        0 => {
            while b.last() == Some(&0) {
                b.pop();
            }
        }
        1 => b.extend(std::iter::repeat(0).take(rng.range(1, 3))),
        2 => {
            if !b.is_empty() {
                let i = rng.below(b.len());
                b[i] = b[i].saturating_add(1);
            } else {
                b.push(1);
            }
        }
        3 => {
            if !b.is_empty() {
                let i = rng.below(b.len());
                b[i] = b[i].saturating_sub(1);
            }
        }
        4 => {
            if b.len() >= 2 {
                let i = rng.below(b.len() - 1);
                b.swap(i, i + 1);
            }
        }
        _ => return gen_vec(rng),
    }
    b
}

// Independent component-wise model.
fn at(v: &[u32], i: usize) -> u32 {
    v.get(i).copied().unwrap_or(0)
}
fn model_cmp(a: &[u32], b: &[u32]) -> Option<Ordering> {
    let n = a.len().max(b.len());
    let (mut less, mut greater) = (false, false);
    for i in 0..n {
        match at(a, i).cmp(&at(b, i)) {
            Ordering::Less => less = true,
            Ordering::Greater => greater = true,
            Ordering::Equal => {}
        }
    }
    match (less, greater) {
        (false, false) => Some(Ordering::Equal),
        (true, false) => Some(Ordering::Less),
        (false, true) => Some(Ordering::Greater),
        (true, true) => None,
    }
}
fn le(c: Option<Ordering>) -> bool {
    matches!(c, Some(Ordering::Less) | Some(Ordering::Equal))
}

pub fn check_pair(case: &Case, a: &[u32], b: &[u32]) -> bool {
    let (ca, cb) = (clock(a), clock(b));
    let wit = || json!({"a": a, "b": b});
    let got = ca.partial_cmp(&cb);
    let expected = model_cmp(a, b);
    case.add("clock_pairs_compared", 1);
    if (0..a.len().max(b.len())).any(|i| at(a, i).abs_diff(at(b, i)) >= 1 << 31) {
        case.add("clock_pairs_with_a_component_gap_of_2^31_or_more", 1);
    }
    if got != expected {
        case.violation("C20/clock/partial_cmp-disagrees-with-component-wise-order", json!({"pair": wit(), "got": format!("{:?}", got), "expected": format!("{:?}", expected)}));
        return false;
    }
    // the comparison operators are the user-visible face of the order (`<=`, `<`, `>=`, `>` call
    // `le`/`lt`/`ge`/`gt`, which a type may override): they must say what the order says
    let ops = [
        ("<=", ca <= cb, matches!(expected, Some(Ordering::Less | Ordering::Equal))),
        ("<", ca < cb, expected == Some(Ordering::Less)),
        (">=", ca >= cb, matches!(expected, Some(Ordering::Greater | Ordering::Equal))),
        (">", ca > cb, expected == Some(Ordering::Greater)),
        ("!=", ca != cb, expected != Some(Ordering::Equal)),
    ];
    for (name, got, want) in ops {
        if got != want {
            case.violation("C20/clock/comparison-operator-disagrees-with-component-wise-order", json!({"pair": wit(), "operator": name, "got": got, "expected": want}));
            return false;
        }
    }
    case.add("clock_operator_comparisons", 5);
    let eq = ca == cb;
    if eq != (expected == Some(Ordering::Equal)) {
        case.violation("C20/clock/eq-disagrees-with-partial_cmp", json!({"pair": wit(), "eq": eq}));
        return false;
    }
    if (cb == ca) != eq {
        case.violation("C20/clock/eq-not-symmetric", wit());
        return false;
    }
    if le(got) && le(cb.partial_cmp(&ca)) && !eq {
        case.violation("C20/clock/antisymmetry-violated", wit());
        return false;
    }
    if eq {
        if stream_of(&ca) != stream_of(&cb) || fp(&ca) != fp(&cb) {
            case.violation("C20/clock/equal-clocks-hash-differently", wit());
            return false;
        }
    } else if stream_of(&ca) == stream_of(&cb) {
        case.violation("C20/clock/different-clocks-feed-identical-hash-stream", wit());
        return false;
    }
    // merge_max: component-wise max, an upper bound of both
    let m = VectorClock::merge_max(&ca, &cb);
    let mv: Vec<u32> = (0..a.len().max(b.len())).map(|i| at(a, i).max(at(b, i))).collect();
    if m != clock(&mv) {
        case.violation("C20/clock/merge_max-is-not-component-wise-max", json!({"pair": wit(), "merge": format!("{}", m), "expected": mv}));
        return false;
    }
    if !le(ca.partial_cmp(&m)) || !le(cb.partial_cmp(&m)) || !(ca <= m) || !(cb <= m) || !(m >= ca) || !(m >= cb) {
        case.violation("C20/clock/merge_max-not-an-upper-bound", json!({"pair": wit(), "merge": format!("{}", m)}));
        return false;
    }
    if VectorClock::merge_max(&cb, &ca) != m {
        case.violation("C20/clock/merge_max-not-commutative", wit());
        return false;
    }
    true
}

fn check_single(case: &Case, a: &[u32], rng: &mut Rng) -> bool {
    let ca = clock(a);
    if ca.partial_cmp(&ca) != Some(Ordering::Equal) || ca != ca.clone() {
        case.violation("C20/clock/reflexivity-violated", json!({"a": a}));
        return false;
    }
    let i = rng.below(a.len() + 3);
    if at(a, i) == u32::MAX {
        return true;
    }
    let inc = ca.clone().incremented(i);
    case.add("increments_checked", 1);
    #[allow(clippy::neg_cmp_op_on_partial_ord)]
    let by_operators = ca < inc && ca <= inc && inc > ca && inc >= ca && !(inc <= ca) && !(ca >= inc) && ca != inc;
    if ca.partial_cmp(&inc) != Some(Ordering::Less) || inc.partial_cmp(&ca) != Some(Ordering::Greater) || !by_operators {
        case.violation("C20/clock/incremented-not-strictly-greater", json!({"a": a, "index": i, "result": format!("{}", inc)}));
        return false;
    }
    let mut expect = a.to_vec();
    if expect.len() <= i {
        expect.resize(i + 1, 0);
    }
    expect[i] += 1;
    if inc != clock(&expect) {
        case.violation("C20/clock/incremented-changes-another-component", json!({"a": a, "index": i, "result": format!("{}", inc), "expected": expect}));
        return false;
    }
    if VectorClock::merge_max(&ca, &ca) != ca {
        case.violation("C20/clock/merge_max-not-idempotent", json!({"a": a}));
        return false;
    }
    true
}

pub fn check_triple(case: &Case, a: &[u32], b: &[u32], c: &[u32]) -> bool {
    let (ca, cb, cc) = (clock(a), clock(b), clock(c));
    let wit = || json!({"a": a, "b": b, "c": c});
    case.add("clock_triples_compared", 1);
    if le(ca.partial_cmp(&cb)) && le(cb.partial_cmp(&cc)) && !le(ca.partial_cmp(&cc)) {
        case.violation("C20/clock/transitivity-violated", wit());
        return false;
    }
    if ca == cb && cb == cc && ca != cc {
        case.violation("C20/clock/eq-not-transitive", wit());
        return false;
    }
    // least upper bound: any common upper bound dominates the merge
    if le(ca.partial_cmp(&cc)) && le(cb.partial_cmp(&cc)) {
        case.add("least_upper_bound_instances", 1);
        let m = VectorClock::merge_max(&ca, &cb);
        if !le(m.partial_cmp(&cc)) || !(m <= cc) {
            case.violation("C20/clock/merge_max-not-least-upper-bound", wit());
            return false;
        }
    }
    // associativity
    let l = VectorClock::merge_max(&VectorClock::merge_max(&ca, &cb), &cc);
    let r = VectorClock::merge_max(&ca, &VectorClock::merge_max(&cb, &cc));
    if l != r {
        case.violation("C20/clock/merge_max-not-associative", wit());
        return false;
    }
    true
}

pub fn clock_case(case: &mut Case) {
    let a = gen_vec(&mut case.rng);
    let b = if case.rng.pct(60) { gen_related(&mut case.rng, &a) } else { gen_vec(&mut case.rng) };
    let c = match case.rng.below(4) {
        0 => gen_related(&mut case.rng, &b),
        1 => (0..a.len().max(b.len()) + 1).map(|i| at(&a, i).max(at(&b, i)).saturating_add(case.rng.below(2) as u32)).collect(),
        2 => gen_related(&mut case.rng, &a),
        _ => gen_vec(&mut case.rng),
    };
    let padded = a.last() == Some(&0) || b.last() == Some(&0) || a.len() != b.len();
    case.distinct(hash_of(&(&a, &b, &c)), padded && (a.len() + b.len() >= 3));
    case.sample(|| json!({"a": a, "b": b, "c": c}));
    let mut r = case.rng.fork();
    let _ = check_single(case, &a, &mut r) && check_pair(case, &a, &b) && check_pair(case, &b, &c) && check_triple(case, &a, &b, &c);
}

/// All vectors of length <= `max_len` over {0,1,2}.
fn all_vectors(max_len: usize) -> Vec<Vec<u32>> {
    let mut out = vec![vec![]];
    let mut layer = vec![vec![]];
    for _ in 0..max_len {
        let mut next = Vec::new();
        for v in &layer {
            for x in 0..3u32 {
                let mut w: Vec<u32> = v.clone();
                w.push(x);
                next.push(w);
            }
        }
        out.extend(next.iter().cloned());
        layer = next;
    }
    out
}

// -- DenseNatMap --------------------------------------------------------------------------------

#[derive(Clone, Debug, PartialEq, Eq, Hash)]
struct Val(u8, Id);
impl Rewrite<Id> for Val {
    fn rewrite<S>(&self, plan: &RewritePlan<Id, S>) -> Self {
        Val(self.0, self.1.rewrite(plan))
    }
}

pub fn dense_case(case: &mut Case) {
    let n = case.rng.below(7);
    let values: Vec<Val> = (0..n).map(|_| Val(case.rng.below(4) as u8, Id::from(case.rng.below(n.max(1))))).collect();
    let mut pairs: Vec<(Id, Val)> = values.iter().cloned().enumerate().map(|(i, v)| (Id::from(i), v)).collect();
    case.rng.shuffle(&mut pairs);
    case.distinct(hash_of(&(&values, pairs.iter().map(|(k, _)| usize::from(*k)).collect::<Vec<_>>())), n >= 2);
    case.sample(|| json!({"pairs_in_insertion_order": pairs.iter().map(|(k, v)| format!("{:?}->{:?}", k, v)).collect::<Vec<_>>()}));
    let wit = || json!({"values": format!("{:?}", values), "order": pairs.iter().map(|(k, _)| usize::from(*k)).collect::<Vec<_>>()});
    let m: DenseNatMap<Id, Val> = pairs.iter().cloned().collect();
    let sorted: DenseNatMap<Id, Val> = values.iter().cloned().enumerate().map(|(i, v)| (Id::from(i), v)).collect();
    case.add("dense_maps_built", 1);
    if m != sorted || stream_of(&m) != stream_of(&sorted) || m != DenseNatMap::from(values.clone()) {
        case.violation("C20/densenatmap/from_iter-depends-on-pair-order", wit());
        return;
    }
    // total map on 0..len agreeing with the Vec model
    if m.len() != n || m.get(Id::from(n)).is_some() || m.values().cloned().collect::<Vec<_>>() != values {
        case.violation("C20/densenatmap/len-get-values-disagree-with-vec-model", wit());
        return;
    }
    for (i, v) in values.iter().enumerate() {
        if m.get(Id::from(i)) != Some(v) || &m[Id::from(i)] != v {
            case.violation("C20/densenatmap/get-or-index-disagrees-with-vec-model", wit());
            return;
        }
    }
    let it: Vec<(usize, Val)> = m.iter().map(|(k, v)| (usize::from(k), v.clone())).collect();
    let into: Vec<(usize, Val)> = m.clone().into_iter().map(|(k, v): (Id, Val)| (usize::from(k), v)).collect();
    let expect: Vec<(usize, Val)> = values.iter().cloned().enumerate().collect();
    if it != expect || into != expect {
        case.violation("C20/densenatmap/iteration-disagrees-with-vec-model", wit());
        return;
    }
    // insert: replace (returns old) / append at len (returns None) / beyond len panics
    let mut m2 = m.clone();
    let mut model = values.clone();
    for _ in 0..4 {
        let k = case.rng.below(model.len() + 1);
        let v = Val(9, Id::from(0));
        let old = m2.insert(Id::from(k), v.clone());
        let expect_old = if k < model.len() { Some(std::mem::replace(&mut model[k], v)) } else { model.push(v); None };
        if old != expect_old || m2.values().cloned().collect::<Vec<_>>() != model {
            case.violation("C20/densenatmap/insert-disagrees-with-vec-model", wit());
            return;
        }
    }
    let beyond = model.len() + 1 + case.rng.below(3);
    let mut m3 = m2.clone();
    if guarded(move || m3.insert(Id::from(beyond), Val(0, Id::from(0)))).is_ok() {
        case.violation("C20/densenatmap/insert-beyond-len-accepted", wit());
        return;
    }
    // gaps and duplicates are rejected
    if n >= 1 {
        let mut gap = pairs.clone();
        let victim = case.rng.below(n);
        let dup = case.rng.pct(50);
        for (k, _) in gap.iter_mut() {
            if usize::from(*k) == victim {
                *k = Id::from(if dup && n >= 2 { (victim + 1) % n } else { n + case.rng.below(3) });
            }
        }
        // only a gap/duplicate if the key set really is no longer 0..n
        let mut keys: Vec<usize> = gap.iter().map(|(k, _)| usize::from(*k)).collect();
        keys.sort();
        if keys != (0..n).collect::<Vec<_>>() {
            case.add("gap_or_duplicate_constructions", 1);
            if guarded(move || gap.into_iter().collect::<DenseNatMap<Id, Val>>()).is_ok() {
                case.violation("C20/densenatmap/from_iter-accepts-gap-or-duplicate", json!({"case": wit(), "keys": keys}));
                return;
            }
        }
    }
    // rewriting under a plan moves each value to the rewritten key
    if n >= 1 {
        let sort_keys: Vec<u8> = (0..n).map(|_| case.rng.below(3) as u8).collect();
        let plan = RewritePlan::<Id, _>::from_values_to_sort(&sort_keys);
        let rewritten = m.rewrite(&plan);
        case.add("dense_rewrites_checked", 1);
        for (k, v) in values.iter().enumerate() {
            let nk = plan.rewrite(&Id::from(k));
            if rewritten.get(nk) != Some(&v.rewrite(&plan)) {
                case.violation(
                    "C20/densenatmap/rewrite-does-not-move-value-to-rewritten-key",
                    json!({"case": wit(), "sort_keys": sort_keys, "key": k, "rewritten_key": usize::from(nk)}),
                );
                return;
            }
        }
        if rewritten.len() != n {
            case.violation("C20/densenatmap/rewrite-changes-len", wit());
        }
    }
}

pub fn run(ctx: &mut Ctx) {
    ctx.rule = "Vector clocks: random vectors (length 0-7, components 0-3, below 10^6, or from the whole u32 range clustered around 2^31 and u32::MAX; trailing zeros) and related \
        variants (padded, stripped, one component +-1, swapped neighbours); each case checks a single clock, two \
        pairs and a triple against an independent component-wise model (order, equality, hash stream, fingerprint, \
        merge_max as least upper bound, incremented). Thorough adds all pairs of vectors of length <= 4 over \
        {0,1,2} and all triples of length <= 2 (complete). Dense maps: shuffled (key,value) pairs, gaps, \
        duplicates, insert sequences and rewrite plans from vectors with ties, vs a Vec model. Non-trivial: the \
        clocks differ in length or carry trailing zeros (>= 3 components in total) / the map has >= 2 entries."
        .into();
    let ctx = &*ctx;
    ctx.cases("clocks_random", ctx.n(60000, 3000000), 0, clock_case);
    ctx.cases("densenatmap", ctx.n(20000, 600000), 0, dense_case);
    // complete small spaces
    let pair_len = ctx.n(3, 4) as usize;
    let vs = all_vectors(pair_len);
    let vs = &vs;
    ctx.cases("clocks_all_pairs", vs.len() as u64, 0, |case| {
        let a = &vs[case.k as usize];
        for b in vs.iter() {
            if !check_pair(case, a, b) {
                return;
            }
        }
        case.distinct(hash_of(a), a.len() >= 2);
        case.sample(|| json!({"a": a, "against": format!("all {} vectors of length <= {} over {{0,1,2}}", vs.len(), pair_len)}));
    });
    let ts = all_vectors(ctx.n(2, 3) as usize);
    let ts = &ts;
    ctx.cases("clocks_all_triples", (ts.len() * ts.len()) as u64, 0, |case| {
        let a = &ts[case.k as usize / ts.len()];
        let b = &ts[case.k as usize % ts.len()];
        for c in ts.iter() {
            if !check_triple(case, a, b, c) {
                return;
            }
        }
        case.distinct(hash_of(&(a, b)), a.len() + b.len() >= 2);
    });
    ctx.info("exhaustive_small_spaces", json!(format!("pairs: all vectors of length <= {} over {{0,1,2}}; triples: length <= {}", pair_len, ctx.n(2, 3))));
    if !ctx.quick() && !ctx.is_replay() && std::env::var_os("SVMON_LANE").is_none() {
        crate::checks::c05::miri_smoke_lane(ctx, "c20", "C20");
    }
}
