//! C13 — single-threaded BFS evaluates by depth and returns shortest witnesses.

use crate::checks::c02::add_mixed_props;
use crate::ctx::Ctx;
use crate::graph::*;
use crate::runner::*;
use serde_json::json;
use stateright::Expectation;
use std::sync::Arc;

pub fn run(ctx: &mut Ctx) {
    ctx.rule = "G1 random graphs (joins giving several routes of different length to a witness, several initial \
        states, boundaries blocking short routes) with 1-6 always/sometimes properties and a keep-alive, \
        threads(1).spawn_bfs(); also layered graphs larger than one 1500-state block. Non-trivial: some \
        witness lies at distance >= 2 and some reachable state has two or more incoming routes."
        .into();
    let ctx = &*ctx;
    let body = |case: &mut crate::ctx::Case, large: bool| {
        let mut g = if large {
            let (d, w) = *case.rng.pick(&[(6usize, 700usize), (10, 400), (4, 2500)]);
            let mut g = gen_graph(&mut case.rng, &Knobs { layered: Some((d, w)), ..Knobs::default() });
            for s in w..g.n {
                if case.rng.chance(1, 20) {
                    g.inb[s] = false;
                }
            }
            g
        } else {
            gen_graph(&mut case.rng, &Knobs { max_n: 30, ..Knobs::default() })
        };
        let reach = g.reach();
        let k = case.rng.range(1, 6);
        add_mixed_props(&mut case.rng, &mut g, &reach, k, 0);
        // keep-alive so that every state is evaluated (order is judged on the full run)
        g.labels.push(vec![true; g.n]);
        g.props.push((Expectation::Always, g.labels.len() - 1));
        // minimum witness distance per property
        let mut min_dist = Vec::new();
        for (kind, slot) in &g.props {
            let label = &g.labels[*slot];
            let want = *kind == Expectation::Sometimes;
            let d = (0..g.n)
                .filter(|s| reach.reachable[*s] && label[*s] == want)
                .map(|s| reach.dist[s])
                .min();
            min_dist.push(d);
        }
        let deep = min_dist.iter().any(|d| matches!(d, Some(d) if *d >= 2));
        case.distinct(g.structural_hash(), deep && reach.generated > reach.count);
        let model = GraphModel(Arc::new(g));
        case.sample(|| model.summary());
        // one run in four is cut by a depth limit: the order must stay by depth and a witness
        // nearer than the limit must still be reported with the shortest path
        let maxd = reach.dist.iter().filter(|d| **d != u32::MAX).max().copied().unwrap_or(0) as usize;
        let target_max_depth = if case.rng.pct(25) { Some(case.rng.range(2, maxd + 3)) } else { None };
        if target_max_depth.is_some() {
            case.add("runs_with_depth_limit", 1);
        }
        let cfg = RunCfg { threads: 1, visitor: 2, target_max_depth, ..RunCfg::default() };
        let out = run_checker(&model, Strategy::Bfs, &cfg, false);
        if !out.finished {
            case.inconclusive("bfs did not finish within the watchdog");
            return;
        }
        if !out.worker_panics.is_empty() || out.discoveries_panic.is_some() {
            case.violation("C13/bfs/panicked", json!({"model": model.summary(), "panics": out.worker_panics}));
            return;
        }
        // evaluation order
        let mut last = 0u32;
        for (i, s) in out.visited_states.iter().enumerate() {
            let d = reach.dist[*s as usize];
            case.add("visits_ordered", 1);
            if d == u32::MAX {
                case.violation("C13/bfs/visited-unreachable-state", json!({"model": model.summary(), "state": s}));
                return;
            }
            if d < last {
                case.violation(
                    "C13/bfs/evaluation-order-not-by-depth",
                    json!({"model": model.summary(), "position": i, "state": s, "distance": d, "previous_distance": last}),
                );
                return;
            }
            last = d;
        }
        // shortest witnesses
        for (idx, d) in min_dist.iter().enumerate() {
            let name = NAMES[idx];
            // (with a depth limit L a state is evaluated iff its path has fewer than L states)
            let within = |d: u32| target_max_depth.map(|l| (d as usize) + 1 < l).unwrap_or(true);
            if let (Some(d), None) = (d, out.discoveries.get(name)) {
                if within(*d) && target_max_depth.is_some() {
                    case.violation(
                        "C13/bfs/witness-nearer-than-the-depth-limit-not-reported",
                        json!({"model": model.summary(), "property": name, "oracle_min": d, "target_max_depth": target_max_depth}),
                    );
                    return;
                }
            }
            if let (Some(d), Some(path)) = (d, out.discoveries.get(name)) {
                case.add("witness_lengths_compared", 1);
                let transitions = path.len() - 1;
                if transitions as u32 != *d {
                    let what = if (transitions as u32) > *d { "witness-longer-than-shortest" } else { "witness-shorter-than-possible" };
                    case.violation(
                        &format!("C13/bfs/{}", what),
                        json!({"model": model.summary(), "property": name, "transitions": transitions, "oracle_min": d, "path": path_json(path)}),
                    );
                    return;
                }
            }
        }
    };
    ctx.cases("small", ctx.n(6000, 250000), 0, |case| body(case, false));
    ctx.cases("multi_block", ctx.n(60, 2500), 0, |case| body(case, true));
}
