//! C15 — actor adapters are transparent to the actor they wrap.
//!
//! Bisimulation monitor: the system built from adapter-wrapped actors and the system built from
//! the bare actors are walked in lock-step through the real `ActorModel`; the bare run is the
//! oracle (and is itself covered by C06).

use crate::ctx::{Case, Ctx};
use crate::tables::*;
use choice::{choice, Choice, Never};
use serde_json::{json, Value};
use stateright::actor::register::{RegisterActor, RegisterActorState, RegisterMsg};
use stateright::actor::write_once_register::{WORegisterActor, WORegisterActorState, WORegisterMsg};
use stateright::actor::{Actor, ActorModel, ActorModelAction, ActorModelState, Id, LossyNetwork, Network, Out};
use stateright::Model;
use std::borrow::Cow;
use std::collections::{BTreeSet, VecDeque};
use std::fmt::Debug;
use std::hash::Hash;

/// A `TableActor` under a distinct Rust type (so that `Choice<A1, A2>` really mixes types).
#[derive(Clone, Debug)]
pub struct Wrap<const K: u8>(pub TableActor);

impl<const K: u8> Actor for Wrap<K> {
    type Msg = Msg;
    type Timer = Timer;
    type Random = Rand;
    type State = TState;
    fn on_start(&self, id: Id, o: &mut Out<Self>) -> TState {
        let mut inner = Out::new();
        let s = self.0.on_start(id, &mut inner);
        o.append(&mut inner);
        s
    }
    fn on_msg(&self, id: Id, state: &mut Cow<TState>, src: Id, msg: Msg, o: &mut Out<Self>) {
        let mut inner = Out::new();
        self.0.on_msg(id, state, src, msg, &mut inner);
        o.append(&mut inner);
    }
    fn on_timeout(&self, id: Id, state: &mut Cow<TState>, timer: &Timer, o: &mut Out<Self>) {
        let mut inner = Out::new();
        self.0.on_timeout(id, state, timer, &mut inner);
        o.append(&mut inner);
    }
    fn on_random(&self, id: Id, state: &mut Cow<TState>, random: &Rand, o: &mut Out<Self>) {
        let mut inner = Out::new();
        self.0.on_random(id, state, random, &mut inner);
        o.append(&mut inner);
    }
    fn name(&self) -> String {
        format!("wrap{}:{}", K, self.0.name)
    }
}

/// A `TableActor` speaking a register-harness message type: table message codes travel as
/// `Internal(code)` (a few as client-protocol messages), and every incoming message is mapped
/// onto a code so that it reaches the tables.
#[derive(Clone, Debug)]
pub struct Coded<M>(pub TableActor, pub std::marker::PhantomData<M>);

macro_rules! coded_actor {
    ($msg:ty, $enc:expr, $dec:expr) => {
        impl Actor for Coded<$msg> {
            type Msg = $msg;
            type Timer = Timer;
            type Random = Rand;
            type State = TState;
            fn on_start(&self, id: Id, o: &mut Out<Self>) -> TState {
                let me = usize::from(id);
                for c in self.0.resolve(&self.0.start_cmds, me, None) {
                    emit_coded(c, o, $enc);
                }
                TState { phase: self.0.start_phase, log: Vec::new() }
            }
            fn on_msg(&self, id: Id, state: &mut Cow<TState>, src: Id, msg: $msg, o: &mut Out<Self>) {
                let code: u8 = $dec(&msg);
                if let Some(r) = self.0.on_msg.get(&(state.phase, code)) {
                    let (new, cmds) = self.0.react(r, state, usize::from(id), Some(usize::from(src)));
                    if let Some(new) = new {
                        *state.to_mut() = new;
                    } else if r.touch {
                        let _ = state.to_mut();
                    }
                    for c in cmds {
                        emit_coded(c, o, $enc);
                    }
                }
            }
            fn on_timeout(&self, id: Id, state: &mut Cow<TState>, timer: &Timer, o: &mut Out<Self>) {
                if let Some(r) = self.0.on_timeout.get(&(state.phase, *timer)) {
                    let (new, cmds) = self.0.react(r, state, usize::from(id), None);
                    if let Some(new) = new {
                        *state.to_mut() = new;
                    } else if r.touch {
                        let _ = state.to_mut();
                    }
                    for c in cmds {
                        emit_coded(c, o, $enc);
                    }
                }
            }
            fn on_random(&self, id: Id, state: &mut Cow<TState>, random: &Rand, o: &mut Out<Self>) {
                if let Some(r) = self.0.on_random.get(&(state.phase, *random)) {
                    let (new, cmds) = self.0.react(r, state, usize::from(id), None);
                    if let Some(new) = new {
                        *state.to_mut() = new;
                    } else if r.touch {
                        let _ = state.to_mut();
                    }
                    for c in cmds {
                        emit_coded(c, o, $enc);
                    }
                }
            }
            fn name(&self) -> String {
                self.0.name.clone()
            }
        }
    };
}

fn emit_coded<A: Actor<Timer = Timer, Random = Rand>>(c: RCmd, o: &mut Out<A>, enc: fn(u8) -> A::Msg) {
    match c {
        RCmd::Send(d, m) => o.send(Id::from(d), enc(m)),
        RCmd::SetTimer(t) => o.set_timer(t, std::time::Duration::ZERO..std::time::Duration::ZERO),
        RCmd::CancelTimer(t) => o.cancel_timer(t),
        RCmd::ChooseRandom(k, v) => {
            if v.is_empty() {
                o.remove_random(k)
            } else {
                o.choose_random(k, v)
            }
        }
    }
}

type RMsg = RegisterMsg<u64, char, u8>;
type WMsg = WORegisterMsg<u64, char, u8>;

fn renc(c: u8) -> RMsg {
    // a few codes travel as client-protocol messages so that those arms are forwarded too
    match c {
        2 => RegisterMsg::PutOk(7),
        _ => RegisterMsg::Internal(c),
    }
}
fn rdec(m: &RMsg) -> u8 {
    match m {
        RegisterMsg::Internal(c) => *c,
        RegisterMsg::Put(..) => 0,
        RegisterMsg::Get(..) => 1,
        RegisterMsg::PutOk(..) => 2,
        RegisterMsg::GetOk(..) => 0,
    }
}
fn wenc(c: u8) -> WMsg {
    match c {
        2 => WORegisterMsg::PutFail(7),
        _ => WORegisterMsg::Internal(c),
    }
}
fn wdec(m: &WMsg) -> u8 {
    match m {
        WORegisterMsg::Internal(c) => *c,
        WORegisterMsg::Put(..) => 0,
        WORegisterMsg::Get(..) => 1,
        WORegisterMsg::PutOk(..) => 1,
        WORegisterMsg::PutFail(..) => 2,
        WORegisterMsg::GetOk(..) => 0,
    }
}
coded_actor!(RMsg, renc, rdec);
coded_actor!(WMsg, wenc, wdec);

// ---------------------------------------------------------------------------------------------

fn build<A: Actor>(sys: &System, actors: Vec<A>, net: Network<A::Msg>) -> ActorModel<A, (), ()> {
    ActorModel::new((), ())
        .actors(actors)
        .init_network(net)
        .lossy_network(if sys.lossy { LossyNetwork::Yes } else { LossyNetwork::No })
        .max_crashes(sys.max_crashes)
}

fn empty_net<M: Eq + Hash>(kind: NetKind) -> Network<M> {
    match kind {
        NetKind::Ordered => Network::new_ordered([]),
        NetKind::NonDup => Network::new_unordered_nonduplicating([]),
        NetKind::Dup => Network::new_unordered_duplicating([]),
    }
}

/// Lock-step walk of the wrapped and the bare system.
fn bisimulate<AW, AU, F>(
    case: &mut Case,
    adapter: &str,
    sys: &System,
    wrapped: &ActorModel<AW, (), ()>,
    bare: &ActorModel<AU, (), ()>,
    unwrap: F,
) -> Option<BTreeSet<&'static str>>
where
    AW: Actor,
    AU: Actor<Msg = AW::Msg, Timer = AW::Timer, Random = AW::Random>,
    AU::State: PartialEq + Debug,
    AW::Msg: Debug,
    AW::Timer: Debug,
    AW::Random: Debug + PartialEq,
    F: Fn(&AW::State) -> Option<AU::State>,
{
    let same = |w: &ActorModelState<AW, ()>, u: &ActorModelState<AU, ()>| -> Result<(), &'static str> {
        if w.actor_states.len() != u.actor_states.len() {
            return Err("actor-count");
        }
        for (a, b) in w.actor_states.iter().zip(u.actor_states.iter()) {
            match unwrap(a) {
                Some(inner) if inner == **b => {}
                _ => return Err("inner-actor-state"),
            }
        }
        if w.network != u.network {
            return Err("network");
        }
        if w.timers_set != u.timers_set {
            return Err("timers");
        }
        if w.random_choices.len() != u.random_choices.len()
            || w.random_choices.iter().zip(u.random_choices.iter()).any(|(a, b)| a.map != b.map)
        {
            return Err("random-choices");
        }
        if w.crashed != u.crashed {
            return Err("crash-flags");
        }
        Ok(())
    };
    let sig = |what: &str| format!("C15/{}/{}", adapter, what);
    let wit = |trace: &[String], extra: Value| json!({"system": sys.to_json(), "adapter": adapter, "trace": trace, "detail": extra});
    let (wi, ui) = (wrapped.init_states(), bare.init_states());
    if wi.len() != 1 || ui.len() != 1 {
        case.inconclusive("unexpected number of initial states");
        return None;
    }
    let (w0, u0) = (wi.into_iter().next().unwrap(), ui.into_iter().next().unwrap());
    if let Err(what) = same(&w0, &u0) {
        case.violation(&sig(&format!("start-event/differs-in-{}", what)), wit(&[], json!({"wrapped": format!("{:?}", w0), "bare": format!("{:?}", u0)})));
        return None;
    }
    let mut kinds = BTreeSet::new();
    // BFS prefix over pairs, then random walks
    let mut queue: VecDeque<(ActorModelState<AW, ()>, ActorModelState<AU, ()>, Vec<String>)> = VecDeque::new();
    queue.push_back((w0.clone(), u0.clone(), Vec::new()));
    let mut visited = 0usize;
    let mut seen: BTreeSet<String> = BTreeSet::new();
    let mut walks_left = 4;
    let mut walk: Option<(ActorModelState<AW, ()>, ActorModelState<AU, ()>, Vec<String>)> = None;
    loop {
        let (w, u, trace, from_queue) = if visited < 80 && !queue.is_empty() {
            let (w, u, t) = queue.pop_front().unwrap();
            (w, u, t, true)
        } else if let Some((w, u, t)) = walk.take() {
            (w, u, t, false)
        } else if walks_left > 0 {
            walks_left -= 1;
            (w0.clone(), u0.clone(), Vec::new(), false)
        } else {
            break;
        };
        visited += 1;
        let mut wa = Vec::new();
        let mut ua = Vec::new();
        wrapped.actions(&w, &mut wa);
        bare.actions(&u, &mut ua);
        let wd: Vec<String> = wa.iter().map(|a| format!("{:?}", a)).collect();
        let ud: Vec<String> = ua.iter().map(|a| format!("{:?}", a)).collect();
        let (mut ws, mut us) = (wd.clone(), ud.clone());
        ws.sort();
        us.sort();
        case.add("state_pairs_compared", 1);
        if ws != us {
            case.violation(&sig("enabled-actions-differ"), wit(&trace, json!({"wrapped": ws, "bare": us})));
            return None;
        }
        // pair the actions by rendering
        let mut successors = Vec::new();
        for (i, a) in wa.into_iter().enumerate() {
            let j = ud.iter().position(|d| *d == wd[i]).unwrap();
            let b = ua[j].clone();
            let kind = match &a {
                ActorModelAction::Deliver { .. } => "message",
                ActorModelAction::Drop(_) => "drop",
                ActorModelAction::Timeout(..) => "timeout",
                ActorModelAction::Crash(_) => "crash",
                ActorModelAction::SelectRandom { .. } => "random-choice",
            };
            let (wn, un) = (wrapped.next_state(&w, a), bare.next_state(&u, b));
            case.add("steps_compared", 1);
            match (wn, un) {
                (None, None) => {}
                (Some(wn), Some(un)) => {
                    if let Err(what) = same(&wn, &un) {
                        case.violation(
                            &sig(&format!("{}-event/successor-differs-in-{}", kind, what)),
                            wit(&trace, json!({"action": wd[i], "wrapped": format!("{:?}", wn), "bare": format!("{:?}", un)})),
                        );
                        return None;
                    }
                    kinds.insert(kind);
                    successors.push((wn, un, wd[i].clone()));
                }
                (wn, un) => {
                    case.violation(
                        &sig(&format!("{}-event/transition-exists-on-one-side-only", kind)),
                        wit(&trace, json!({"action": wd[i], "wrapped_has_successor": wn.is_some(), "bare_has_successor": un.is_some()})),
                    );
                    return None;
                }
            }
        }
        if successors.is_empty() {
            continue;
        }
        if from_queue {
            for (wn, un, a) in successors {
                if trace.len() < 8 && seen.insert(format!("{:?}", un)) {
                    let mut t = trace.clone();
                    t.push(a);
                    queue.push_back((wn, un, t));
                }
            }
        } else if trace.len() < 50 {
            let i = case.rng.below(successors.len());
            let (wn, un, a) = successors.swap_remove(i);
            let mut t = trace;
            t.push(a);
            walk = Some((wn, un, t));
        }
    }
    Some(kinds)
}

fn unwrap3(s: &choice![TState, TState, TState]) -> Option<TState> {
    Some(match s {
        Choice::L(s) => s.clone(),
        Choice::R(Choice::L(s)) => s.clone(),
        Choice::R(Choice::R(Choice::L(s))) => s.clone(),
        Choice::R(Choice::R(Choice::R(never))) => match *never {},
    })
}

fn retarget<M: Eq + Hash>(sys: &System, enc: fn(u8) -> M) -> Network<M> {
    let envs = sys.init_net.iter().map(|(s, d, m)| stateright::actor::Envelope { src: Id::from(*s), dst: Id::from(*d), msg: enc(*m) });
    match sys.kind {
        NetKind::Ordered => Network::new_ordered(envs),
        NetKind::NonDup => Network::new_unordered_nonduplicating(envs),
        NetKind::Dup => Network::new_unordered_duplicating(envs),
    }
}

fn adapters_case(case: &mut Case) {
    let knobs = SysKnobs { max_actors: 3, touch: true, ..SysKnobs::default() };
    let sys = gen_system(&mut case.rng, &knobs);
    case.sample(|| sys.to_json());
    let mut kinds: BTreeSet<&'static str> = BTreeSet::new();
    let variant = case.k % 5;
    let result = match variant {
        0 => {
            // Choice in positions L, R.L, R.R.L mixed in one system
            type Mixed = choice![Wrap<0>, Wrap<1>, Wrap<2>];
            let wrapped_actors: Vec<Mixed> = sys
                .actors
                .iter()
                .enumerate()
                .map(|(i, a)| match (i + case.k as usize / 5) % 3 {
                    0 => choice!(0 <- Wrap::<0>(a.clone())),
                    1 => choice!(1 <- Wrap::<1>(a.clone())),
                    _ => choice!(2 <- Wrap::<2>(a.clone())),
                })
                .collect();
            for (i, w) in wrapped_actors.iter().enumerate() {
                let expected = format!("wrap{}:{}", (i + case.k as usize / 5) % 3, sys.actors[i].name);
                if w.name() != expected {
                    case.violation("C15/choice/name-not-forwarded", json!({"name": w.name(), "expected": expected}));
                    return;
                }
            }
            let wrapped = build(&sys, wrapped_actors, sys.network());
            let bare = build(&sys, sys.actors.clone(), sys.network());
            bisimulate(case, "choice", &sys, &wrapped, &bare, unwrap3)
        }
        1 => {
            // Choice<A, Never>
            let wrapped_actors: Vec<Choice<TableActor, Never>> = sys.actors.iter().map(|a| Choice::new(a.clone())).collect();
            let wrapped = build(&sys, wrapped_actors, sys.network());
            let bare = build(&sys, sys.actors.clone(), sys.network());
            bisimulate(case, "choice-never", &sys, &wrapped, &bare, |s: &Choice<TState, Never>| Some(s.get().clone()))
        }
        2 => {
            let inner: Vec<Coded<RMsg>> = sys.actors.iter().map(|a| Coded(a.clone(), Default::default())).collect();
            let wrapped_actors: Vec<RegisterActor<Coded<RMsg>>> = inner.iter().cloned().map(RegisterActor::Server).collect();
            let wrapped = build(&sys, wrapped_actors, retarget(&sys, renc));
            let bare = build(&sys, inner, retarget(&sys, renc));
            bisimulate(case, "register-server", &sys, &wrapped, &bare, |s: &RegisterActorState<TState, u64>| match s {
                RegisterActorState::Server(s) => Some(s.clone()),
                _ => None,
            })
        }
        3 => {
            let inner: Vec<Coded<WMsg>> = sys.actors.iter().map(|a| Coded(a.clone(), Default::default())).collect();
            let wrapped_actors: Vec<WORegisterActor<Coded<WMsg>>> = inner.iter().cloned().map(WORegisterActor::Server).collect();
            let wrapped = build(&sys, wrapped_actors, retarget(&sys, wenc));
            let bare = build(&sys, inner, retarget(&sys, wenc));
            bisimulate(case, "wo-register-server", &sys, &wrapped, &bare, |s: &WORegisterActorState<TState, u64>| match s {
                WORegisterActorState::Server(s) => Some(s.clone()),
                _ => None,
            })
        }
        _ => {
            // nesting: register server around a Choice around the coded actor
            type Inner = Choice<Coded<RMsg>, Never>;
            let inner: Vec<Coded<RMsg>> = sys.actors.iter().map(|a| Coded(a.clone(), Default::default())).collect();
            let wrapped_actors: Vec<RegisterActor<Inner>> = inner.iter().cloned().map(|a| RegisterActor::Server(Choice::new(a))).collect();
            let wrapped = build(&sys, wrapped_actors, retarget(&sys, renc));
            let bare = build(&sys, inner, retarget(&sys, renc));
            bisimulate(case, "register-server-around-choice", &sys, &wrapped, &bare, |s: &RegisterActorState<Choice<TState, Never>, u64>| match s {
                RegisterActorState::Server(s) => Some(s.get().clone()),
                _ => None,
            })
        }
    };
    if let Some(k) = result {
        kinds.extend(k);
    }
    for k in &kinds {
        case.add(&format!("event_kind_{}", k), 1);
    }
    case.add(&format!("variant_{}", variant), 1);
    case.distinct(sys.structural_hash() ^ variant, kinds.len() >= 2);
}

/// The scripted `Vec<(Id, Msg)>` client sends exactly its script, one message per received
/// message, in order.
fn script_case(case: &mut Case) {
    let len = case.rng.below(6);
    let script: Vec<(Id, u8)> = (0..len).map(|_| (Id::from(case.rng.below(4)), case.rng.below(5) as u8)).collect();
    case.distinct(crate::ctx::hash_of(&script.iter().map(|(i, m)| (usize::from(*i), *m)).collect::<Vec<_>>()), len >= 2);
    case.sample(|| json!({"script": script.iter().map(|(i, m)| (usize::from(*i), *m)).collect::<Vec<_>>()}));
    let wit = |what: &str| json!({"script": script.iter().map(|(i, m)| (usize::from(*i), *m)).collect::<Vec<_>>(), "what": what});
    // drive the handlers directly
    let mut o: Out<Vec<(Id, u8)>> = Out::new();
    let me = Id::from(9);
    let mut state = script.on_start(me, &mut o);
    let mut sent: Vec<(Id, u8)> = Vec::new();
    let drain = |o: &mut Out<Vec<(Id, u8)>>, sent: &mut Vec<(Id, u8)>| -> usize {
        let mut n = 0;
        for c in std::mem::take(o) {
            match c {
                stateright::actor::Command::Send(d, m) => {
                    sent.push((d, m));
                    n += 1;
                }
                _ => return 99,
            }
        }
        n
    };
    let n0 = drain(&mut o, &mut sent);
    if n0 != usize::from(len > 0) {
        case.violation("C15/scripted-client/start-does-not-send-exactly-the-first-message", wit("on_start"));
        return;
    }
    for step in 0..len + 3 {
        let mut cow = Cow::Borrowed(&state);
        script.on_msg(me, &mut cow, Id::from(case.rng.below(4)), case.rng.below(5) as u8, &mut o);
        let changed = matches!(cow, Cow::Owned(_));
        let new_state = cow.into_owned();
        let n = drain(&mut o, &mut sent);
        let expect = usize::from(sent.len() - n < len);
        case.add("scripted_client_messages_handled", 1);
        if n != expect || (n == 0 && changed) {
            case.violation("C15/scripted-client/not-exactly-one-message-per-received-message", wit(&format!("received message #{}", step)));
            return;
        }
        state = new_state;
    }
    if sent != script {
        case.violation("C15/scripted-client/sent-sequence-differs-from-script", wit(&format!("sent {:?}", sent.iter().map(|(i, m)| (usize::from(*i), *m)).collect::<Vec<_>>())));
    }
}

pub fn run(ctx: &mut Ctx) {
    ctx.rule = "G2 table actors (messages, timers and random choices in use) wrapped five ways - Choice mixed over \
        positions L / R.L / R.R.L with three distinct actor types, Choice<A, Never>, RegisterActor::Server, \
        WORegisterActor::Server, RegisterActor::Server around Choice - on all network kinds with crashes; the \
        wrapped and the bare system are walked in lock-step (BFS prefix of 80 state pairs + 4 random walks) and \
        compared after un-wrapping: enabled actions, existence of a successor, inner actor states, network, \
        timers, random choices, crash flags. The scripted Vec client is driven directly with random scripts. \
        Non-trivial: events of >= 2 kinds (message, timeout, random-choice, crash, drop) led to compared \
        successors / the script has >= 2 entries."
        .into();
    ctx.assumptions = vec!["the bare system is the oracle; its own semantics is C06's subject".into()];
    let ctx = &*ctx;
    ctx.cases("adapters", ctx.n(4000, 300000), 0, adapters_case);
    ctx.cases("scripted_client", ctx.n(20000, 1500000), 0, script_case);
}
