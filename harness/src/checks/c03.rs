//! C03 — every reported discovery is a genuine witness path.

use crate::checks::c02::{gen_mirror_graph, mirror_labels, mirror_rep};
use crate::ctx::{Case, Ctx};
use crate::graph::*;
use crate::rng::Rng;
use crate::runner::*;
use serde_json::json;
use stateright::{Expectation, HasDiscoveries};
use std::collections::BTreeSet;
use std::sync::Arc;

pub fn gen_props_all_kinds(rng: &mut Rng, g: &mut GraphData, reach: &Reach, k: usize) {
    let kinds = [Expectation::Always, Expectation::Sometimes, Expectation::Eventually, Expectation::Eventually];
    for _ in 0..k {
        let labels = gen_labels(rng, g, reach);
        g.labels.push(labels);
        g.props.push((rng.pick(&kinds).clone(), g.labels.len() - 1));
    }
}

pub fn gen_finish_when(rng: &mut Rng, nprops: usize) -> Option<HasDiscoveries> {
    let subset = |rng: &mut Rng| -> BTreeSet<&'static str> {
        let mut s = BTreeSet::new();
        for name in NAMES.iter().take(nprops) {
            if rng.pct(40) {
                s.insert(*name);
            }
        }
        if rng.pct(15) {
            s.insert("zz"); // names no property: AllOf can then never match
        }
        s
    };
    match rng.below(8) {
        0 | 1 => None,
        2 => Some(HasDiscoveries::All),
        3 => Some(HasDiscoveries::Any),
        4 => Some(HasDiscoveries::AnyFailures),
        5 => Some(HasDiscoveries::AllFailures),
        6 => Some(HasDiscoveries::AllOf(subset(rng))),
        _ => Some(HasDiscoveries::AnyOf(subset(rng))),
    }
}

pub fn judge_discoveries(case: &Case, g: &GraphData, tag: &str, cfg: &RunCfg, out: &RunOut, simulation: bool) {
    let desc = || {
        json!({"model": g.summary(), "strategy": tag, "threads": cfg.threads,
               "finish_when": format!("{:?}", cfg.finish_when), "target_state_count": cfg.target_state_count})
    };
    if !out.finished {
        case.inconclusive(&format!("{} did not finish within the watchdog", tag));
        return;
    }
    if let Some(msg) = &out.discoveries_panic {
        let class = if msg.contains("empty path") { "empty-path" } else { "cannot-reconstruct-path" };
        case.violation(
            &format!("C03/{}/discoveries-panics:{}", tag, class),
            json!({"run": desc(), "panic": msg}),
        );
        return;
    }
    if !out.worker_panics.is_empty() {
        case.violation(&format!("C03/{}/worker-panicked", tag), json!({"run": desc(), "panics": out.worker_panics}));
        return;
    }
    for (name, path) in &out.discoveries {
        let idx = NAMES.iter().position(|n| n == name).unwrap();
        let (kind, slot) = &g.props[idx];
        case.add("discoveries_validated", 1);
        case.add(&format!("discoveries_{}_{}", tag, expectation_tag(kind)), 1);
        if let Err(reason) = validate_discovery(g, kind, &g.labels[*slot], path, simulation) {
            case.violation(
                &format!("C03/{}/{}/{}", tag, expectation_tag(kind), reason),
                json!({"run": desc(), "property": name, "path": path_json(path)}),
            );
            return;
        }
    }
}

/// As `judge_discoveries` for simulation under the mirror symmetry: a trace of an
/// eventually-counterexample may end where it re-enters the symmetry class of an earlier state
/// (that is the cycle test the checker performs under symmetry).
fn judge_discoveries_symmetric(case: &Case, g: &GraphData, tag: &str, cfg: &RunCfg, out: &RunOut) {
    let desc = || json!({"model": g.summary(), "strategy": tag, "threads": cfg.threads, "target_state_count": cfg.target_state_count});
    if !out.finished {
        case.inconclusive(&format!("{} did not finish within the watchdog", tag));
        return;
    }
    if let Some(msg) = &out.discoveries_panic {
        let class = if msg.contains("empty path") { "empty-path" } else { "cannot-reconstruct-path" };
        case.violation(&format!("C03/{}/discoveries-panics:{}", tag, class), json!({"run": desc(), "panic": msg}));
        return;
    }
    if !out.worker_panics.is_empty() {
        case.violation(&format!("C03/{}/worker-panicked", tag), json!({"run": desc(), "panics": out.worker_panics}));
        return;
    }
    for (name, path) in &out.discoveries {
        let idx = NAMES.iter().position(|n| n == name).unwrap();
        let (kind, slot) = &g.props[idx];
        let label = &g.labels[*slot];
        case.add("discoveries_validated", 1);
        case.add(&format!("discoveries_{}_{}", tag, expectation_tag(kind)), 1);
        let verdict = match kind {
            Expectation::Eventually => validate_path(g, path).and_then(|_| {
                if path.iter().any(|(s, _)| label[*s as usize]) {
                    return Err("eventually-path-contains-satisfying-state".to_string());
                }
                let last = path.last().unwrap().0;
                let terminal = g.in_boundary_successors(last).is_empty();
                let closes = path[..path.len() - 1].iter().any(|(s, _)| mirror_rep(s) == mirror_rep(&last));
                if terminal || closes { Ok(()) } else { Err("eventually-path-not-maximal".to_string()) }
            }),
            _ => validate_discovery(g, kind, label, path, true),
        };
        if let Err(reason) = verdict {
            case.violation(
                &format!("C03/{}/{}/{}", tag, expectation_tag(kind), reason),
                json!({"run": desc(), "property": name, "path": path_json(path)}),
            );
            return;
        }
    }
}

/// Two routes of different length from the initial state to a join, the short one through the
/// only state that satisfies an eventually-property, and a terminal tail behind the join. The
/// long route is a genuine counterexample; a witness assembled from whichever route reached the
/// join *last* (or shortest) would pass through the satisfying state. The on-demand checker is
/// asked to walk the long route first; BFS and DFS run on the same graphs.
fn unequal_routes_case(case: &mut Case) {
    let long = case.rng.range(2, 5);
    let short = case.rng.range(1, long - 1);
    let tail = case.rng.range(0, 3);
    let noise = case.rng.below(4);
    let n = 1 + long + short + 1 + tail + noise;
    let mut g = GraphData::new(n);
    g.inits = vec![0];
    let long_arm: Vec<u32> = (1..=long as u32).collect();
    let short_arm: Vec<u32> = (long as u32 + 1..=(long + short) as u32).collect();
    let join = (long + short + 1) as u32;
    let tail_nodes: Vec<u32> = (join + 1..=join + tail as u32).collect();
    let chain = |g: &mut GraphData, nodes: &[u32], from: u32, to: u32| {
        let mut prev = from;
        for x in nodes {
            g.out[prev as usize].push(Some(*x));
            prev = *x;
        }
        g.out[prev as usize].push(Some(to));
    };
    // action order at the initial state is random (which arm is "first" must not matter)
    if case.rng.pct(50) {
        chain(&mut g, &long_arm, 0, join);
        chain(&mut g, &short_arm, 0, join);
    } else {
        chain(&mut g, &short_arm, 0, join);
        chain(&mut g, &long_arm, 0, join);
    }
    let mut prev = join;
    for x in &tail_nodes {
        g.out[prev as usize].push(Some(*x));
        prev = *x;
    }
    // noise: dead-end states hanging off the long arm
    for k in 0..noise {
        let x = (join as usize + tail + 1 + k) as u32;
        let from = long_arm[case.rng.below(long_arm.len())];
        g.out[from as usize].push(Some(x));
    }
    let reach = g.reach();
    // eventually: true only at one state of the short arm
    let sat = *case.rng.pick(&short_arm);
    let mut l = vec![false; n];
    l[sat as usize] = true;
    g.labels.push(l);
    g.props.push((Expectation::Eventually, 0));
    // something that stays open, so that checking goes on after the first discovery
    g.labels.push(vec![true; n]);
    g.props.push((Expectation::Always, 1));
    if case.rng.pct(50) {
        g.labels.push(vec![false; n]);
        g.props.push((Expectation::Sometimes, 2));
    }
    let _ = reach;
    case.distinct(g.structural_hash(), true);
    let model = GraphModel(Arc::new(g));
    case.sample(|| model.summary());
    // on-demand: the long arm, the join and the tail first, then everything else
    let mut order: Vec<u32> = vec![0];
    order.extend(&long_arm);
    order.push(join);
    order.extend(&tail_nodes);
    let threads = *case.rng.pick(&[1usize, 1, 2]);
    let cfg = RunCfg { threads, visitor: 0, ..RunCfg::default() };
    let mut rq = case.rng.fork();
    let out = run_on_demand_requests(&model, &cfg, &mut rq, order.len(), Some(&order), false);
    case.add("runs_on_demand_long_route_first", 1);
    judge_discoveries(case, &model, "on_demand", &cfg, &out, false);
    for strategy in [Strategy::Bfs, Strategy::Dfs, Strategy::OnDemand] {
        let cfg = RunCfg { threads: *case.rng.pick(&[1usize, 2, 4]), visitor: 0, ..RunCfg::default() };
        let out = run_checker(&model, strategy, &cfg, false);
        case.add(&format!("runs_unequal_routes_{}", strategy.name()), 1);
        judge_discoveries(case, &model, strategy.name(), &cfg, &out, false);
    }
}

/// Runs that are cut short by a timeout (worker subprocesses shared with C12): whatever they
/// report for an eventually-property that no state satisfies must still be a maximal path. The
/// chain model has no maximal finite path at all, the tree's only ones end in its leaves.
fn interrupted_runs(ctx: &Ctx) {
    let scenarios: Vec<(&str, usize, bool)> = vec![
        ("simulation", 1, true),
        ("simulation", 3, true),
        ("simulation", 2, false),
        ("bfs", 2, false),
        ("dfs", 2, false),
        ("dfs", 1, true),
        ("on_demand", 2, true),
        ("bfs", 1, true),
    ];
    let scenarios = &scenarios;
    ctx.cases("interrupted_by_timeout", scenarios.len() as u64, 8, |case| {
        let (strategy, threads, chain) = scenarios[case.k as usize];
        let args: Vec<String> = vec![
            "timeout".into(), strategy.into(), threads.to_string(), "1000".into(), "30".into(), "0".into(),
            if chain { "1".into() } else { "0".into() },
        ];
        case.distinct(crate::ctx::hash_of(&args), true);
        case.sample(|| json!({"scenario": args}));
        let out = crate::worker::run_worker(&args, std::time::Duration::from_secs(30));
        let Some(v) = crate::worker::last_json(&out) else {
            case.inconclusive(&format!("worker produced no result (killed={} code={:?})", out.killed, out.exit_code));
            return;
        };
        if v["joined"].as_bool() != Some(true) {
            case.inconclusive(&format!("{} t={}: join had not returned when the observation ended", strategy, threads));
            return;
        }
        case.add("interrupted_runs_observed", 1);
        let d = &v["never_discovery"];
        let shape = if chain { "chain" } else { "tree" };
        if d.is_null() {
            case.add("interrupted_runs_reporting_nothing", 1);
            return;
        }
        case.add("interrupted_runs_reporting_a_path", 1);
        if d.get("panic").is_some() {
            case.violation(&format!("C03/{}/discoveries-panics:after-timeout", strategy), json!({"scenario": args, "result": v}));
            return;
        }
        let real = d["is_a_real_path"].as_bool().unwrap_or(false);
        let maximal = d["last_is_terminal"].as_bool().unwrap_or(false) || (strategy == "simulation" && d["closes_cycle"].as_bool().unwrap_or(false));
        if !real {
            case.violation(&format!("C03/{}/eventually/not-a-transition", strategy), json!({"scenario": args, "model": shape, "reported": d}));
        } else if !maximal {
            case.violation(
                &format!("C03/{}/eventually/eventually-path-not-maximal", strategy),
                json!({"scenario": args, "model": shape, "reported": d, "note": "run interrupted by its timeout"}),
            );
        }
    });
}

pub fn run(ctx: &mut Ctx) {
    ctx.rule = "G1 random graphs (boundaries cutting successors, initial states outside the boundary, joins, \
        cycles) with 1-7 properties of all three kinds so that checking continues after the first discovery; \
        BFS, DFS, on-demand, simulation (several seeds) and DFS+symmetry on mirror-symmetric graphs; all six \
        HasDiscoveries variants; threads in {1,2,4}. Every returned path is re-validated step by step against \
        the graph. Non-trivial: the runs of the case returned at least one discovery for a path with >=1 \
        transition and the model has >=2 properties. Additional sub-checks: half of the on-demand runs issue step-wise requests first; a fifth of the exhaustive runs carry a depth limit; (unequal_routes) a long and a short route to a join, the short one through the only state satisfying an eventually-property, long route requested first; simulation with the mirror symmetry (visitor paths and discoveries); (interrupted_by_timeout) subprocess runs on an endless chain / 2^40 tree cut by a 1 s timeout - whatever is reported must be a maximal path.".into();
    let ctx = &*ctx;
    ctx.cases("paths", ctx.n(2500, 40000), 0, |case| {
        let mut g = gen_graph(&mut case.rng, &Knobs::default());
        let reach = g.reach();
        let k = case.rng.range(1, 7);
        gen_props_all_kinds(&mut case.rng, &mut g, &reach, k);
        let hash = g.structural_hash();
        let model = GraphModel(Arc::new(g));
        case.sample(|| model.summary());
        let mut long_discovery = false;
        let maxd = reach.dist.iter().filter(|d| **d != u32::MAX).max().copied().unwrap_or(0) as usize;
        for strategy in [Strategy::Bfs, Strategy::Dfs, Strategy::OnDemand] {
            let threads = *case.rng.pick(&[1usize, 1, 2, 4]);
            let finish_when = gen_finish_when(&mut case.rng, model.props.len());
            // one run in five is cut by a depth limit: whatever is still reported must be a
            // genuine witness (a depth cut is not the end of a maximal path)
            let target_max_depth = if case.rng.pct(20) { Some(case.rng.range(1, maxd + 2)) } else { None };
            if target_max_depth.is_some() {
                case.add("runs_with_depth_limit", 1);
            }
            let cfg = RunCfg { threads, visitor: 0, finish_when, target_max_depth, ..RunCfg::default() };
            let out = if strategy == Strategy::OnDemand && case.rng.pct(50) {
                // step-wise requests first (down a branch), then run to completion
                case.add("runs_on_demand_stepwise", 1);
                let mut rq = case.rng.fork();
                let k = rq.range(1, 10);
                run_on_demand_stepwise(&model, &cfg, &mut rq, k, false)
            } else {
                run_checker(&model, strategy, &cfg, false)
            };
            case.add(&format!("runs_{}", strategy.name()), 1);
            long_discovery |= out.discoveries.values().any(|p| p.len() >= 2);
            judge_discoveries(case, &model, strategy.name(), &cfg, &out, false);
        }
        if model.inits.iter().any(|i| model.inb[*i as usize]) {
            for _ in 0..3 {
                let seed = case.rng.next_u64() % 1000;
                let threads = *case.rng.pick(&[1usize, 1, 2]);
                let finish_when = gen_finish_when(&mut case.rng, model.props.len());
                let cfg = RunCfg {
                    threads,
                    visitor: 0,
                    finish_when,
                    target_state_count: Some(case.rng.range(5, 200)),
                    watchdog: std::time::Duration::from_secs(20),
                    ..RunCfg::default()
                };
                let out = run_checker(&model, Strategy::Simulation(seed), &cfg, false);
                case.add("runs_simulation", 1);
                long_discovery |= out.discoveries.values().any(|p| p.len() >= 2);
                judge_discoveries(case, &model, "simulation", &cfg, &out, true);
            }
        }
        case.distinct(hash, long_discovery && model.props.len() >= 2);
    });
    ctx.cases("paths_dfs_symmetry", ctx.n(1500, 20000), 0, |case| {
        let pairs = case.rng.range(1, 10);
        let mut g = gen_mirror_graph(&mut case.rng, pairs);
        let reach = g.reach();
        let k = case.rng.range(1, 5);
        for _ in 0..k {
            let l = mirror_labels(&mut case.rng, &g, &reach);
            g.labels.push(l);
            let kind = case.rng.pick(&[Expectation::Always, Expectation::Sometimes, Expectation::Eventually]).clone();
            g.props.push((kind, g.labels.len() - 1));
        }
        let hash = g.structural_hash();
        let model = GraphModel(Arc::new(g));
        case.sample(|| model.summary());
        let threads = *case.rng.pick(&[1usize, 2, 4]);
        let cfg = RunCfg { threads, visitor: 0, ..RunCfg::default() };
        let out = run_dfs_symmetry(&model, mirror_rep, &cfg, false);
        case.add("runs_dfs_symmetry", 1);
        case.distinct(hash, out.discoveries.values().any(|p| p.len() >= 2) && model.props.len() >= 2);
        judge_discoveries(case, &model, "dfs_symmetry", &cfg, &out, false);
        // simulation with the same symmetry: reported paths must still be executions of the
        // original model (cycle closing is accepted up to the representative, see validate)
        if model.inits.iter().any(|i| model.inb[*i as usize]) {
            let cfg = RunCfg {
                threads: *case.rng.pick(&[1usize, 2]),
                visitor: 1,
                target_state_count: Some(case.rng.range(5, 120)),
                watchdog: std::time::Duration::from_secs(20),
                ..RunCfg::default()
            };
            let out = run_simulation_symmetry(&model, mirror_rep, case.rng.next_u64() % 1000, &cfg);
            case.add("runs_simulation_symmetry", 1);
            if out.finished && out.worker_panics.is_empty() {
                for p in &out.visits {
                    case.add("simulation_symmetry_visitor_paths_validated", 1);
                    if let Err(reason) = validate_path(&model, p) {
                        case.violation(
                            &format!("C03/simulation_symmetry/visitor-path-invalid:{}", reason),
                            json!({"model": model.summary(), "path": path_json(p)}),
                        );
                        return;
                    }
                }
            }
            judge_discoveries_symmetric(case, &model, "simulation_symmetry", &cfg, &out);
        }
    });
    ctx.cases("unequal_routes", ctx.n(400, 8000), 0, unequal_routes_case);
    interrupted_runs(ctx);
}
