//! C03 — every reported discovery is a genuine witness path.

use crate::checks::c02::{gen_mirror_graph, mirror_labels, mirror_rep};
use crate::ctx::{Case, Ctx};
use crate::graph::*;
use crate::rng::Rng;
use crate::runner::*;
use serde_json::json;
use stateright::{Expectation, HasDiscoveries};
use std::collections::BTreeSet;
use std::sync::Arc;

pub fn gen_props_all_kinds(rng: &mut Rng, g: &mut GraphData, reach: &Reach, k: usize) {
    let kinds = [Expectation::Always, Expectation::Sometimes, Expectation::Eventually, Expectation::Eventually];
    for _ in 0..k {
        let labels = gen_labels(rng, g, reach);
        g.labels.push(labels);
        g.props.push((rng.pick(&kinds).clone(), g.labels.len() - 1));
    }
}

pub fn gen_finish_when(rng: &mut Rng, nprops: usize) -> Option<HasDiscoveries> {
    let subset = |rng: &mut Rng| -> BTreeSet<&'static str> {
        let mut s = BTreeSet::new();
        for name in NAMES.iter().take(nprops) {
            if rng.pct(40) {
                s.insert(*name);
            }
        }
        if rng.pct(15) {
            s.insert("zz"); // names no property: AllOf can then never match
        }
        s
    };
    match rng.below(8) {
        0 | 1 => None,
        2 => Some(HasDiscoveries::All),
        3 => Some(HasDiscoveries::Any),
        4 => Some(HasDiscoveries::AnyFailures),
        5 => Some(HasDiscoveries::AllFailures),
        6 => Some(HasDiscoveries::AllOf(subset(rng))),
        _ => Some(HasDiscoveries::AnyOf(subset(rng))),
    }
}

pub fn judge_discoveries(case: &Case, g: &GraphData, tag: &str, cfg: &RunCfg, out: &RunOut, simulation: bool) {
    let desc = || {
        json!({"model": g.summary(), "strategy": tag, "threads": cfg.threads,
               "finish_when": format!("{:?}", cfg.finish_when), "target_state_count": cfg.target_state_count})
    };
    if !out.finished {
        case.inconclusive(&format!("{} did not finish within the watchdog", tag));
        return;
    }
    if let Some(msg) = &out.discoveries_panic {
        let class = if msg.contains("empty path") { "empty-path" } else { "cannot-reconstruct-path" };
        case.violation(
            &format!("C03/{}/discoveries-panics:{}", tag, class),
            json!({"run": desc(), "panic": msg}),
        );
        return;
    }
    if !out.worker_panics.is_empty() {
        case.violation(&format!("C03/{}/worker-panicked", tag), json!({"run": desc(), "panics": out.worker_panics}));
        return;
    }
    for (name, path) in &out.discoveries {
        let idx = NAMES.iter().position(|n| n == name).unwrap();
        let (kind, slot) = &g.props[idx];
        case.add("discoveries_validated", 1);
        case.add(&format!("discoveries_{}_{}", tag, expectation_tag(kind)), 1);
        if let Err(reason) = validate_discovery(g, kind, &g.labels[*slot], path, simulation) {
            case.violation(
                &format!("C03/{}/{}/{}", tag, expectation_tag(kind), reason),
                json!({"run": desc(), "property": name, "path": path_json(path)}),
            );
            return;
        }
    }
}

pub fn run(ctx: &mut Ctx) {
    ctx.rule = "G1 random graphs (boundaries cutting successors, initial states outside the boundary, joins, \
        cycles) with 1-7 properties of all three kinds so that checking continues after the first discovery; \
        BFS, DFS, on-demand, simulation (several seeds) and DFS+symmetry on mirror-symmetric graphs; all six \
        HasDiscoveries variants; threads in {1,2,4}. Every returned path is re-validated step by step against \
        the graph. Non-trivial: the runs of the case returned at least one discovery for a path with >=1 \
        transition and the model has >=2 properties."
        .into();
    let ctx = &*ctx;
    ctx.cases("paths", ctx.n(2500, 40000), 0, |case| {
        let mut g = gen_graph(&mut case.rng, &Knobs::default());
        let reach = g.reach();
        let k = case.rng.range(1, 7);
        gen_props_all_kinds(&mut case.rng, &mut g, &reach, k);
        let hash = g.structural_hash();
        let model = GraphModel(Arc::new(g));
        case.sample(|| model.summary());
        let mut long_discovery = false;
        let maxd = reach.dist.iter().filter(|d| **d != u32::MAX).max().copied().unwrap_or(0) as usize;
        for strategy in [Strategy::Bfs, Strategy::Dfs, Strategy::OnDemand] {
            let threads = *case.rng.pick(&[1usize, 1, 2, 4]);
            let finish_when = gen_finish_when(&mut case.rng, model.props.len());
            // one run in five is cut by a depth limit: whatever is still reported must be a
            // genuine witness (a depth cut is not the end of a maximal path)
            let target_max_depth = if case.rng.pct(20) { Some(case.rng.range(1, maxd + 2)) } else { None };
            if target_max_depth.is_some() {
                case.add("runs_with_depth_limit", 1);
            }
            let cfg = RunCfg { threads, visitor: 0, finish_when, target_max_depth, ..RunCfg::default() };
            let out = run_checker(&model, strategy, &cfg, false);
            case.add(&format!("runs_{}", strategy.name()), 1);
            long_discovery |= out.discoveries.values().any(|p| p.len() >= 2);
            judge_discoveries(case, &model, strategy.name(), &cfg, &out, false);
        }
        if model.inits.iter().any(|i| model.inb[*i as usize]) {
            for _ in 0..3 {
                let seed = case.rng.next_u64() % 1000;
                let threads = *case.rng.pick(&[1usize, 1, 2]);
                let finish_when = gen_finish_when(&mut case.rng, model.props.len());
                let cfg = RunCfg {
                    threads,
                    visitor: 0,
                    finish_when,
                    target_state_count: Some(case.rng.range(5, 200)),
                    watchdog: std::time::Duration::from_secs(20),
                    ..RunCfg::default()
                };
                let out = run_checker(&model, Strategy::Simulation(seed), &cfg, false);
                case.add("runs_simulation", 1);
                long_discovery |= out.discoveries.values().any(|p| p.len() >= 2);
                judge_discoveries(case, &model, "simulation", &cfg, &out, true);
            }
        }
        case.distinct(hash, long_discovery && model.props.len() >= 2);
    });
    ctx.cases("paths_dfs_symmetry", ctx.n(1500, 20000), 0, |case| {
        let pairs = case.rng.range(1, 10);
        let mut g = gen_mirror_graph(&mut case.rng, pairs);
        let reach = g.reach();
        let k = case.rng.range(1, 5);
        for _ in 0..k {
            let l = mirror_labels(&mut case.rng, &g, &reach);
            g.labels.push(l);
            let kind = case.rng.pick(&[Expectation::Always, Expectation::Sometimes, Expectation::Eventually]).clone();
            g.props.push((kind, g.labels.len() - 1));
        }
        let hash = g.structural_hash();
        let model = GraphModel(Arc::new(g));
        case.sample(|| model.summary());
        let threads = *case.rng.pick(&[1usize, 2, 4]);
        let cfg = RunCfg { threads, visitor: 0, ..RunCfg::default() };
        let out = run_dfs_symmetry(&model, mirror_rep, &cfg, false);
        case.add("runs_dfs_symmetry", 1);
        case.distinct(hash, out.discoveries.values().any(|p| p.len() >= 2) && model.props.len() >= 2);
        judge_discoveries(case, &model, "dfs_symmetry", &cfg, &out, false);
    });
}
