//! C07 — message transport obeys the selected network semantics in every interleaving.

use crate::checks::c06::{net_name, Lockstep};
use crate::ctx::{hash_of, Case, Ctx};
use crate::rng::Rng;
use crate::tables::*;
use serde_json::{json, Value};
use stateright::actor::{Envelope, Id, Network};
use std::collections::{BTreeMap, BTreeSet};

/// `len`, `iter_all` (as a multiset; must terminate) and `iter_deliverable` (as a set) of the
/// real network vs the reference contents.
pub fn net_api_agrees(real: &Network<Msg>, reference: &RNet) -> Result<(), (String, Value)> {
    let len = real.len();
    if len != reference.len() {
        return Err(("network-api/len-disagrees-with-contents".into(), json!({"len": len, "reference": reference.len()})));
    }
    // bounded: a non-terminating iterator is a verdict, not a hang
    let mut all: Vec<REnv> = real
        .iter_all()
        .take(len + 3)
        .map(|e| (usize::from(e.src), usize::from(e.dst), *e.msg))
        .collect();
    all.sort();
    if all != reference.all() {
        let kind = match reference {
            RNet::Ordered(_) => "ordered",
            RNet::NonDup(_) => "nonduplicating",
            RNet::Dup(..) => "duplicating",
        };
        let what = if all.len() > reference.all().len() { "yields-too-many-items" } else if all.len() < reference.all().len() { "yields-too-few-items" } else { "yields-wrong-items" };
        return Err((format!("network-api/iter_all/{}/{}", kind, what), json!({"iter_all": format!("{:?}", all), "reference": format!("{:?}", reference.all())})));
    }
    let mut deliverable: Vec<REnv> = real
        .iter_deliverable()
        .take(len + 3)
        .map(|e| (usize::from(e.src), usize::from(e.dst), *e.msg))
        .collect();
    deliverable.sort();
    let mut expected = reference.deliverable();
    expected.sort();
    if deliverable != expected {
        return Err(("network-api/iter_deliverable-disagrees-with-contents".into(), json!({"iter_deliverable": format!("{:?}", deliverable), "reference": format!("{:?}", expected)})));
    }
    Ok(())
}

fn api_case(case: &mut Case) {
    let n = case.rng.range(1, 4);
    let count = case.rng.range(0, 9);
    let few_msgs = case.rng.pct(60);
    let envs: Vec<REnv> = (0..count)
        .map(|_| (case.rng.below(n), case.rng.below(n), case.rng.below(if few_msgs { 2 } else { 4 }) as u8))
        .collect();
    let kind = *case.rng.pick(&[NetKind::Ordered, NetKind::NonDup, NetKind::Dup]);
    let mk = |e: &REnv| Envelope { src: Id::from(e.0), dst: Id::from(e.1), msg: e.2 };
    let with_last = kind == NetKind::Dup && case.rng.pct(40);
    let last = if with_last { Some((case.rng.below(n), case.rng.below(n), case.rng.below(3) as u8)) } else { None };
    let real = match kind {
        NetKind::Ordered => Network::new_ordered(envs.iter().map(mk)),
        NetKind::NonDup => Network::new_unordered_nonduplicating(envs.iter().map(mk)),
        NetKind::Dup => {
            if with_last {
                Network::new_unordered_duplicating_with_last_msg(envs.iter().map(mk), last.as_ref().map(mk))
            } else {
                Network::new_unordered_duplicating(envs.iter().map(mk))
            }
        }
    };
    let mut reference = RNet::new(kind);
    for e in &envs {
        reference.send(*e);
    }
    if let RNet::Dup(_, l) = &mut reference {
        *l = last;
    }
    let mut per_flow: BTreeMap<(usize, usize), usize> = BTreeMap::new();
    for e in &envs {
        *per_flow.entry((e.0, e.1)).or_default() += 1;
    }
    let repeated = envs.iter().collect::<BTreeSet<_>>().len() < envs.len();
    case.distinct(hash_of(&(&envs, kind, last)), per_flow.values().any(|c| *c >= 2) && (repeated || per_flow.len() >= 2));
    case.sample(|| json!({"kind": net_name(kind), "envelopes": envs}));
    case.add(&format!("api_networks_{}", net_name(kind)), 1);
    if abstract_net(&real) != reference {
        case.violation(
            &format!("C07/{}/constructor-contents-differ-from-envelopes-given", net_name(kind)),
            json!({"envelopes": envs, "network": format!("{:?}", real)}),
        );
        return;
    }
    if let Err((what, detail)) = net_api_agrees(&real, &reference) {
        case.violation(&format!("C07/{}/{}", net_name(kind), what), json!({"envelopes": envs, "detail": detail}));
    }
}

/// Trace-level conservation laws, stated without reference to the reference *state*: what was
/// delivered / dropped along the walk vs what was sent (initial contents count as sent).
fn trace_laws(sys: &System, sends_in_order: &[Vec<REnv>], trace: &[RAct]) -> Result<(), String> {
    // sends_in_order[0] = initial contents + start-up sends; sends_in_order[i+1] = sends of step i
    match sys.kind {
        NetKind::Ordered => {
            let mut flows: BTreeMap<(usize, usize), std::collections::VecDeque<Msg>> = BTreeMap::new();
            let mut push = |flows: &mut BTreeMap<(usize, usize), std::collections::VecDeque<Msg>>, es: &[REnv]| {
                for e in es {
                    flows.entry((e.0, e.1)).or_default().push_back(e.2);
                }
            };
            push(&mut flows, &sends_in_order[0]);
            for (i, a) in trace.iter().enumerate() {
                match a {
                    RAct::Deliver(s, d, m) | RAct::Drop(s, d, m) => {
                        let q = flows.entry((*s, *d)).or_default();
                        if q.front() != Some(m) {
                            return Err(format!("ordered: step {} consumes {:?} which is not the oldest undelivered message of its flow", i, a));
                        }
                        q.pop_front();
                    }
                    _ => {}
                }
                if matches!(a, RAct::Drop(..)) && !sys.lossy {
                    return Err(format!("drop step {} on a lossless network", i));
                }
                push(&mut flows, &sends_in_order[i + 1]);
            }
        }
        NetKind::NonDup => {
            let mut budget: BTreeMap<REnv, i64> = BTreeMap::new();
            for e in &sends_in_order[0] {
                *budget.entry(*e).or_default() += 1;
            }
            for (i, a) in trace.iter().enumerate() {
                match a {
                    RAct::Deliver(s, d, m) | RAct::Drop(s, d, m) => {
                        let b = budget.entry((*s, *d, *m)).or_default();
                        *b -= 1;
                        if *b < 0 {
                            return Err(format!("non-duplicating: step {} consumes {:?} more often than it was sent", i, a));
                        }
                    }
                    _ => {}
                }
                if matches!(a, RAct::Drop(..)) && !sys.lossy {
                    return Err(format!("drop step {} on a lossless network", i));
                }
                for e in &sends_in_order[i + 1] {
                    *budget.entry(*e).or_default() += 1;
                }
            }
        }
        NetKind::Dup => {
            let mut present: BTreeSet<REnv> = sends_in_order[0].iter().copied().collect();
            for (i, a) in trace.iter().enumerate() {
                match a {
                    RAct::Deliver(s, d, m) => {
                        if !present.contains(&(*s, *d, *m)) {
                            return Err(format!("duplicating: step {} delivers {:?} which was never sent or was dropped since", i, a));
                        }
                    }
                    RAct::Drop(s, d, m) => {
                        if !present.remove(&(*s, *d, *m)) {
                            return Err(format!("duplicating: step {} drops {:?} which is not in flight", i, a));
                        }
                        if !sys.lossy {
                            return Err(format!("drop step {} on a lossless network", i));
                        }
                    }
                    _ => {}
                }
                present.extend(sends_in_order[i + 1].iter().copied());
            }
        }
    }
    Ok(())
}

fn transport_case(case: &mut Case, knobs: &SysKnobs) {
    let mut sys = gen_system(&mut case.rng, knobs);
    // network-heavy: larger bound, extra initial messages incl. repeats on one flow
    sys.cfg.net_bound = case.rng.range(4, 8);
    let n = sys.actors.len();
    for _ in 0..case.rng.range(0, 4) {
        let e = (case.rng.below(n), case.rng.below(n), case.rng.below(2) as u8);
        sys.init_net.push(e);
        if case.rng.pct(40) {
            sys.init_net.push(e);
        }
    }
    let model = sys.model();
    let mut ls = Lockstep::new("C07", &sys, &model);
    ls.check_net_api = true;
    case.sample(|| sys.to_json());
    case.add(&format!("systems_{}{}", net_name(sys.kind), if sys.lossy { "+lossy" } else { "" }), 1);
    let mut consumed = 0;
    let mut redelivered = false;
    if ls.bfs_prefix(case, 60).is_none() {
        case.distinct(sys.structural_hash(), true);
        return;
    }
    for _ in 0..4 {
        let mut rng: Rng = case.rng.fork();
        // record the sends of each step by draining the reference's send log around a replay
        let Some((trace, _)) = ls.walk(case, &mut rng, 80) else { break };
        // replay on the reference alone, collecting sends per step
        let reference = Reference::new(&sys);
        let mut st = reference.init();
        let mut sends: Vec<Vec<REnv>> = Vec::new();
        let mut first: Vec<REnv> = sys.init_net.clone();
        first.extend(reference.sends.borrow_mut().drain(..));
        sends.push(first);
        for a in &trace {
            st = reference.step(&st, a).expect("trace was produced by the lock-step walk");
            sends.push(reference.sends.borrow_mut().drain(..).collect());
        }
        case.add("trace_steps_checked", trace.len() as u64);
        consumed += trace.iter().filter(|a| matches!(a, RAct::Deliver(..) | RAct::Drop(..))).count();
        let mut seen = BTreeSet::new();
        for a in &trace {
            if let RAct::Deliver(..) = a {
                if !seen.insert(a.clone()) {
                    redelivered = true;
                }
            }
        }
        if let Err(reason) = trace_laws(&sys, &sends, &trace) {
            let short = reason.split(": ").next().unwrap_or("").to_string();
            case.violation(
                &format!("C07/{}/trace-law/{}", net_name(sys.kind), short),
                json!({"system": sys.to_json(), "trace": trace.iter().map(|a| format!("{:?}", a)).collect::<Vec<_>>(), "reason": reason}),
            );
            return;
        }
    }
    case.distinct(sys.structural_hash(), consumed >= 4 && (redelivered || sys.lossy || sys.kind == NetKind::Ordered));
}

pub fn run(ctx: &mut Ctx) {
    ctx.rule = "(api) networks built by the public constructors from random envelope lists (several flows, >= 2 \
        messages per flow, repeated identical messages, with/without last-delivered marker): contents, len, \
        iter_all (multiset; bounded so non-termination is a verdict) and iter_deliverable vs the reference \
        network. (transport) network-heavy G2 systems on the 3 kinds x lossy: lock-step walks compare every \
        send/deliver/drop successor and the three API views at every state, and the taken traces are checked \
        against per-kind conservation laws (ordered: oldest of its flow, no duplicate; non-duplicating: consumed \
        <= sent; duplicating: no delivery after a drop until re-sent; drops only when lossy, one copy each). \
        Non-trivial: a flow holds >= 2 messages (api) / the walks consumed >= 4 messages incl. a redelivery, a \
        drop-capable or an ordered network (transport)."
        .into();
    let ctx = &*ctx;
    ctx.cases("api", ctx.n(20000, 600000), 0, api_case);
    let knobs = SysKnobs { crashes: false, randoms: false, ..SysKnobs::default() };
    ctx.cases("transport", ctx.n(2500, 40000), 0, |case| transport_case(case, &knobs));
    // (crashes on here: a message sent to a crashed actor still has to enter the network)
    let four = SysKnobs { crashes: true, randoms: false, max_actors: 4, ..SysKnobs::default() };
    ctx.cases("transport_four_actors", ctx.n(600, 10000), 0, |case| transport_case(case, &four));
}
