//! C02 — always/sometimes verdicts are exact once a check completes.

use crate::ctx::{Case, Ctx};
use crate::graph::*;
use crate::runner::*;
use serde_json::json;
use stateright::Expectation;
use std::sync::Arc;

/// Adds `k` always/sometimes properties and `e` eventually bystanders.
pub fn add_mixed_props(rng: &mut crate::rng::Rng, g: &mut GraphData, reach: &Reach, k: usize, e: usize) {
    for i in 0..(k + e) {
        let labels = gen_labels(rng, g, reach);
        g.labels.push(labels);
        let kind = if i < k {
            if rng.pct(50) { Expectation::Always } else { Expectation::Sometimes }
        } else {
            Expectation::Eventually
        };
        g.props.push((kind, g.labels.len() - 1));
    }
    // random order
    let mut props = std::mem::take(&mut g.props);
    rng.shuffle(&mut props);
    g.props = props;
}

/// What the oracle expects: for each always/sometimes property, must a discovery exist?
pub fn expected_discovery(g: &GraphData, reach: &Reach, idx: usize) -> Option<bool> {
    let (kind, slot) = &g.props[idx];
    let label = &g.labels[*slot];
    match kind {
        Expectation::Always => Some((0..g.n).any(|s| reach.reachable[s] && !label[s])),
        Expectation::Sometimes => Some((0..g.n).any(|s| reach.reachable[s] && label[s])),
        Expectation::Eventually => None,
    }
}

pub fn judge(case: &Case, g: &GraphData, reach: &Reach, tag: &str, threads: usize, out: &RunOut) {
    let desc = || json!({"model": g.summary(), "strategy": tag, "threads": threads});
    if !out.finished {
        case.inconclusive(&format!("{} threads={} did not finish within the watchdog", tag, threads));
        return;
    }
    if !out.worker_panics.is_empty() || out.discoveries_panic.is_some() {
        case.violation(
            &format!("C02/{}/panicked", tag),
            json!({"run": desc(), "worker_panics": out.worker_panics, "discoveries_panic": out.discoveries_panic}),
        );
        return;
    }
    let mut all_ok = true;
    for idx in 0..g.props.len() {
        let name = NAMES[idx];
        let has = out.discoveries.contains_key(name);
        let kind = expectation_tag(&g.props[idx].0);
        case.add("verdicts_compared", 1);
        match expected_discovery(g, reach, idx) {
            Some(expected) => {
                if expected && !has {
                    case.violation(
                        &format!("C02/{}/{}-discovery-missing", tag, kind),
                        json!({"run": desc(), "property": name}),
                    );
                    return;
                }
                if !expected && has {
                    case.violation(
                        &format!("C02/{}/{}-discovery-spurious", tag, kind),
                        json!({"run": desc(), "property": name, "path": path_json(&out.discoveries[name])}),
                    );
                    return;
                }
                let good = if g.props[idx].0 == Expectation::Always { !expected } else { expected };
                all_ok &= good;
            }
            None => {
                all_ok &= !has;
            }
        }
    }
    if !out.is_done {
        case.violation(&format!("C02/{}/is_done-false-after-completion", tag), json!({"run": desc()}));
        return;
    }
    if let Some(ok) = out.assert_properties_ok {
        if ok != all_ok {
            case.violation(
                &format!("C02/{}/assert_properties-{}", tag, if ok { "succeeds-wrongly" } else { "panics-wrongly" }),
                json!({"run": desc(), "expected_ok": all_ok, "discoveries": out.discoveries.keys().collect::<Vec<_>>()}),
            );
            return;
        }
    }
    // The helper methods are how users read the verdicts: each must say what `discoveries()` says.
    for h in &out.helpers {
        let idx = NAMES.iter().position(|n| *n == h.name).unwrap();
        let (kind, slot) = &g.props[idx];
        let reported = out.discoveries.get(h.name);
        case.add("helper_views_compared", 1);
        let bad = |what: &str| {
            case.violation(
                &format!("C02/{}/helper/{}", tag, what),
                json!({"run": desc(), "property": h.name, "kind": expectation_tag(kind), "discoveries_has_it": reported.is_some(), "helpers": format!("{:?}", h)}),
            );
        };
        if h.discovery.as_ref() != reported {
            return bad("discovery(name)-differs-from-discoveries()");
        }
        if h.assert_any_discovery_ok != reported.is_some() {
            return bad(if reported.is_some() { "assert_any_discovery-panics-although-discovered" } else { "assert_any_discovery-succeeds-without-a-discovery" });
        }
        if h.assert_no_discovery_ok != reported.is_none() {
            return bad(if reported.is_none() { "assert_no_discovery-panics-without-a-discovery" } else { "assert_no_discovery-succeeds-although-discovered" });
        }
        if *kind == Expectation::Eventually {
            // assert_discovery's own notion of a terminal state (no action at all) is narrower
            // than the checkers' (no in-boundary successor); not judged
            continue;
        }
        if h.assert_discovery_of_reported_path_ok == Some(false) {
            return bad("assert_discovery-rejects-the-reported-path");
        }
        // the empty action list denotes the initial states: accepted iff a discovery exists and
        // some initial state is itself a witness
        if g.inits.iter().any(|i| !g.inb[*i as usize]) {
            // whether an out-of-boundary initial state may serve as a witness here is not
            // something the statement settles; not judged
            continue;
        }
        let want = *kind == Expectation::Sometimes;
        let init_witness = g.inits.iter().any(|i| g.labels[*slot][*i as usize] == want);
        if h.assert_discovery_of_empty_path_ok != (reported.is_some() && init_witness) {
            return bad(if init_witness { "assert_discovery-rejects-a-witnessing-initial-state" } else { "assert_discovery-accepts-a-path-that-is-no-witness" });
        }
    }
}

// Mirror-symmetric graphs: states 2i and 2i+1 are images of each other under s -> s^1.
pub fn mirror_rep(s: &u32) -> u32 {
    *s & !1
}

pub fn gen_mirror_graph(rng: &mut crate::rng::Rng, pairs: usize) -> GraphData {
    let n = pairs * 2;
    let mut g = GraphData::new(n);
    let max_deg = rng.range(1, 3);
    for p in 0..pairs {
        let deg = rng.range(0, max_deg);
        for _ in 0..deg {
            let e = if rng.pct(10) { None } else { Some(rng.below(n) as u32) };
            g.out[2 * p].push(e);
            g.out[2 * p + 1].push(e.map(|t| t ^ 1));
        }
        let inb = !rng.pct(12);
        g.inb[2 * p] = inb;
        g.inb[2 * p + 1] = inb;
    }
    let k = rng.range(1, 2.min(pairs));
    let mut cands: Vec<usize> = (0..pairs).collect();
    rng.shuffle(&mut cands);
    for p in cands.into_iter().take(k) {
        // either member of the pair, or both: an initial state need not be its own
        // representative (the representative is the even member)
        match rng.below(10) {
            0..=2 => g.inits.push(2 * p as u32),
            3..=5 => g.inits.push(2 * p as u32 + 1),
            _ => {
                g.inits.push(2 * p as u32);
                g.inits.push(2 * p as u32 + 1);
            }
        }
    }
    g
}

pub fn mirror_labels(rng: &mut crate::rng::Rng, g: &GraphData, reach: &Reach) -> Vec<bool> {
    let mut l = gen_labels(rng, g, reach);
    for p in 0..g.n / 2 {
        // invariant under the mirror: combine the pair
        let v = if rng.pct(50) { l[2 * p] || l[2 * p + 1] } else { l[2 * p] && l[2 * p + 1] };
        l[2 * p] = v;
        l[2 * p + 1] = v;
    }
    l
}

pub fn run(ctx: &mut Ctx) {
    ctx.rule = "G1 random finite graphs with 1-6 always/sometimes properties (labels: never/always/random \
        density/one depth/terminals only/all-but-one/exactly-one/cycle states) plus 0-2 eventually bystanders, \
        checked by BFS, DFS, on-demand at random thread counts in {1,2,4,8}; mirror-symmetric graphs with \
        invariant labels checked by DFS with symmetry. Non-trivial: >=2 reachable states and the expected \
        verdicts are mixed (some property must have a discovery and some must not). The Checker helper methods (discovery, assert_any_discovery, assert_no_discovery, assert_discovery) must agree with discoveries(); (before_completion) an on-demand checker that was not asked to do anything yet must not be done nor present a verdict.".into();
    ctx.assumptions = vec!["u32 states: 64-bit fingerprint collisions are ignored".into()];
    let ctx = &*ctx;
    ctx.cases("verdicts", ctx.n(3000, 40000), 0, |case| {
        let mut g = gen_graph(&mut case.rng, &Knobs::default());
        let reach = g.reach();
        let k = case.rng.range(1, 6);
        let e = case.rng.below(3).min(MAX_SLOTS - k);
        add_mixed_props(&mut case.rng, &mut g, &reach, k, e);
        let exp: Vec<Option<bool>> = (0..g.props.len()).map(|i| expected_discovery(&g, &reach, i)).collect();
        let mixed = exp.iter().any(|e| *e == Some(true)) && exp.iter().any(|e| *e == Some(false));
        case.distinct(g.structural_hash(), reach.count >= 2 && mixed);
        let model = GraphModel(Arc::new(g));
        case.sample(|| model.summary());
        for strategy in [Strategy::Bfs, Strategy::Dfs, Strategy::OnDemand] {
            let threads = *case.rng.pick(&[1usize, 1, 2, 4, 8]);
            let cfg = RunCfg { threads, visitor: 0, ..RunCfg::default() };
            let out = run_checker(&model, strategy, &cfg, true);
            case.add(&format!("runs_{}_t{}", strategy.name(), threads), 1);
            judge(case, &model, &reach, strategy.name(), threads, &out);
        }
    });
    // "... and is_done is true": before completion the helpers must not present a verdict. An
    // on-demand checker that has not been asked to do anything yet is incomplete by construction
    // (given an in-boundary initial state and at least one property), whatever the schedule.
    ctx.cases("before_completion", ctx.n(300, 5000), 0, |case| {
        let mut g = gen_graph(&mut case.rng, &Knobs { allow_outside_inits: false, ..Knobs::default() });
        let reach = g.reach();
        let k = case.rng.range(1, 4);
        let e = case.rng.below(2);
        add_mixed_props(&mut case.rng, &mut g, &reach, k, e);
        if reach.count == 0 {
            case.distinct(g.structural_hash(), false);
            return;
        }
        case.distinct(g.structural_hash(), reach.count >= 2);
        let model = GraphModel(Arc::new(g));
        case.sample(|| model.summary());
        use stateright::{Checker, Model};
        let threads = *case.rng.pick(&[1usize, 2, 3]);
        let c = model.clone().checker().threads(threads).spawn_on_demand();
        let wit = || json!({"model": model.summary(), "threads": threads});
        let done_before = c.is_done();
        case.add("incomplete_checkers_observed", 1);
        if done_before {
            case.violation("C02/on_demand/is_done-true-before-anything-was-checked", wit());
            return;
        }
        if crate::ctx::guarded(|| c.assert_properties()).is_ok() {
            case.violation("C02/on_demand/helper/assert_properties-succeeds-on-an-incomplete-check", wit());
            return;
        }
        for p in model.properties() {
            case.add("incomplete_helper_calls", 2);
            if crate::ctx::guarded(|| c.assert_no_discovery(p.name)).is_ok() {
                case.violation("C02/on_demand/helper/assert_no_discovery-succeeds-on-an-incomplete-check", json!({"run": wit(), "property": p.name}));
                return;
            }
            if crate::ctx::guarded(|| c.assert_any_discovery(p.name)).is_ok() {
                case.violation("C02/on_demand/helper/assert_any_discovery-succeeds-without-a-discovery", json!({"run": wit(), "property": p.name}));
                return;
            }
        }
        // let it finish so that no worker thread is left waiting
        c.run_to_completion();
        let mut c = c;
        let hs = c.handles();
        let t = std::time::Instant::now();
        while hs.iter().any(|h| !h.is_finished()) && t.elapsed() < std::time::Duration::from_secs(30) {
            std::thread::sleep(std::time::Duration::from_micros(200));
        }
    });
    // frontiers wider than one 1500-state block, with the only witness / violation far from the
    // initial states
    ctx.cases("verdicts_wide_frontier", ctx.n(6, 120), 3, |case| {
        let (d, w) = *case.rng.pick(&[(3usize, 4000usize), (4, 2500), (3, 7000)]);
        let mut g = gen_graph(&mut case.rng, &Knobs { layered: Some((d, w)), ..Knobs::default() });
        if case.rng.pct(50) {
            // a star: one initial state fanning out to a whole layer
            g.inits = vec![0];
            g.out[0] = (w..2 * w).map(|t| Some(t as u32)).collect();
        }
        let reach = g.reach();
        let deep: Vec<usize> = (0..g.n).filter(|s| reach.reachable[*s] && reach.dist[*s] as usize >= 1).collect();
        if deep.is_empty() {
            case.distinct(g.structural_hash(), false);
            return;
        }
        for _ in 0..case.rng.range(2, 4) {
            // true at exactly one deep state (sometimes) / everywhere except one (always)
            let at = *case.rng.pick(&deep);
            if case.rng.pct(50) {
                let mut l = vec![false; g.n];
                l[at] = true;
                g.labels.push(l);
                g.props.push((Expectation::Sometimes, g.labels.len() - 1));
            } else {
                let mut l = vec![true; g.n];
                l[at] = false;
                g.labels.push(l);
                g.props.push((Expectation::Always, g.labels.len() - 1));
            }
        }
        g.labels.push(vec![false; g.n]);
        g.props.push((Expectation::Sometimes, g.labels.len() - 1)); // never witnessed: keeps the run exhaustive
        case.distinct(g.structural_hash(), true);
        let model = GraphModel(Arc::new(g));
        case.sample(|| model.summary());
        for strategy in [Strategy::Bfs, Strategy::Dfs, Strategy::OnDemand] {
            let threads = *case.rng.pick(&[1usize, 2, 4]);
            let cfg = RunCfg { threads, visitor: 0, watchdog: std::time::Duration::from_secs(120), ..RunCfg::default() };
            let out = run_checker(&model, strategy, &cfg, true);
            case.add(&format!("wide_runs_{}_t{}", strategy.name(), threads), 1);
            judge(case, &model, &reach, strategy.name(), threads, &out);
        }
    });
    ctx.cases("verdicts_dfs_symmetry", ctx.n(1500, 20000), 0, |case| {
        let pairs = case.rng.range(1, 10);
        let mut g = gen_mirror_graph(&mut case.rng, pairs);
        let reach = g.reach();
        let k = case.rng.range(1, 5);
        for _ in 0..k {
            let l = mirror_labels(&mut case.rng, &g, &reach);
            g.labels.push(l);
            let kind = if case.rng.pct(50) { Expectation::Always } else { Expectation::Sometimes };
            g.props.push((kind, g.labels.len() - 1));
        }
        let exp: Vec<Option<bool>> = (0..g.props.len()).map(|i| expected_discovery(&g, &reach, i)).collect();
        let mixed = exp.iter().any(|e| *e == Some(true)) && exp.iter().any(|e| *e == Some(false));
        case.distinct(g.structural_hash(), reach.count >= 2 && mixed);
        let model = GraphModel(Arc::new(g));
        case.sample(|| model.summary());
        let threads = *case.rng.pick(&[1usize, 2, 4]);
        let cfg = RunCfg { threads, visitor: 0, ..RunCfg::default() };
        let out = run_dfs_symmetry(&model, mirror_rep, &cfg, true);
        case.add(&format!("runs_dfs_symmetry_t{}", threads), 1);
        judge(case, &model, &reach, "dfs_symmetry", threads, &out);
    });
}
