//! C08 — the linearizability tester decides linearizability exactly.
//! (The shared machinery is also used by C14 for the sequential-consistency tester.)

use crate::ctx::{hash_of, Case, Ctx};
use crate::hist::*;
use serde_json::json;
use stateright::semantics::register::Register;
use stateright::semantics::write_once_register::WORegister;
use stateright::semantics::LinearizabilityTester;
use std::fmt::Debug;
use std::hash::Hash;

/// Judges one history against one tester. `pid` is "C08" or "C14".
pub fn judge_history<S: SpecGen, T: TesterApi<S>>(case: &Case, pid: &str, init: &S, h: &History<S>) -> Option<bool>
where
    S::Op: Clone + Debug + PartialEq + Hash + Send + Sync,
    S::Ret: Clone + Debug + PartialEq + Hash + Send + Sync,
{
    let tname = <T as TesterApi<S>>::NAME;
    let wit = || json!({"tester": tname, "history": history_json(init, h)});
    let mut tester = T::fresh(init.clone());
    // every other history is recorded through `on_invret` wherever an invocation is directly
    // followed by its own return (decided by the history's hash, so replays agree)
    let invret = hash_of(h) & 1 == 1 && has_adjacent_pair(h);
    if invret {
        case.add(&format!("histories_fed_through_on_invret_{}", tname), 1);
    }
    let first_err = feed_with(&mut tester, h, invret);
    if well_formed(h) {
        if let Some(i) = first_err {
            case.violation(&format!("{}/{}/{}/well-formed-history-rejected", pid, tname, S::NAME), json!({"case": wit(), "event": i}));
            return None;
        }
        let ops = op_instances(h);
        let expected_len = ops.len();
        if tester.length() != expected_len {
            case.violation(
                &format!("{}/{}/{}/len-disagrees-with-history", pid, tname, S::NAME),
                json!({"case": wit(), "len": tester.length(), "completed_plus_in_flight": expected_len}),
            );
            return None;
        }
        let Some(expected) = consistent_by_definition(init, h, <T as TesterApi<S>>::MODE) else {
            case.inconclusive("oracle budget exhausted");
            return None;
        };
        let got = tester.is_consistent();
        case.add(&format!("histories_compared_{}", tname), 1);
        case.add(if expected { "oracle_consistent" } else { "oracle_inconsistent" }, 1);
        if got != expected {
            let what = if got { "accepts-inconsistent-history" } else { "rejects-consistent-history" };
            case.violation(&format!("{}/{}/{}/{}", pid, tname, S::NAME, what), json!({"case": wit(), "oracle": expected}));
            return None;
        }
        let ser = tester.serialization();
        if ser.is_some() != got {
            case.violation(&format!("{}/{}/{}/serialized_history-disagrees-with-is_consistent", pid, tname, S::NAME), wit());
            return None;
        }
        if let Some(ser) = ser {
            case.add("serializations_validated", 1);
            if let Err(reason) = valid_serialization(init, h, &ser, <T as TesterApi<S>>::MODE) {
                case.violation(
                    &format!("{}/{}/{}/{}", pid, tname, S::NAME, reason.split("-at-").next().unwrap()),
                    json!({"case": wit(), "serialization": format!("{:?}", ser), "reason": reason}),
                );
                return None;
            }
        }
        Some(got)
    } else {
        let expected_at = first_ill_formed(h);
        case.add(&format!("ill_formed_histories_{}", tname), 1);
        if first_err != expected_at {
            case.violation(
                &format!("{}/{}/{}/ill-formed-event-not-rejected", pid, tname, S::NAME),
                json!({"case": wit(), "first_rejected_event": first_err, "first_ill_formed_event": expected_at}),
            );
            return None;
        }
        // sticky: every later call fails, the history stays inconsistent
        let mut t2 = T::fresh(init.clone());
        let at = expected_at.unwrap();
        // (cut after the offending event: when it is the invocation of an `on_invret` pair, the
        // pair's return belongs to the rejected call and is skipped below)
        let _ = feed_with(&mut t2, &h[..=at].to_vec(), false);
        if invret {
            // the same prefix through on_invret must have been rejected at the same event
            let mut t3 = T::fresh(init.clone());
            let cut = if matches!((&h[at], h.get(at + 1)), (Ev::Inv(a, _), Some(Ev::Ret(b, _))) if a == b) { at + 1 } else { at };
            if feed_with(&mut t3, &h[..=cut].to_vec(), true) != Some(at) || t3.is_consistent() {
                case.violation(&format!("{}/{}/{}/ill-formed-event-not-rejected-by-on_invret", pid, tname, S::NAME), wit());
                return None;
            }
        }
        for e in &h[at + 1..] {
            let ok = match e {
                Ev::Inv(t, op) => t2.on_invoke(*t, op.clone()).is_ok(),
                Ev::Ret(t, r) => t2.on_return(*t, r.clone()).is_ok(),
            };
            if ok {
                case.violation(&format!("{}/{}/{}/call-accepted-after-rejection", pid, tname, S::NAME), wit());
                return None;
            }
        }
        if tester.is_consistent() || tester.serialization().is_some() {
            case.violation(&format!("{}/{}/{}/ill-formed-history-consistent", pid, tname, S::NAME), wit());
            return None;
        }
        Some(false)
    }
}

/// Draws a history from one of the three sources.
pub fn draw_history<S: SpecGen>(case: &mut Case, max_ops: usize) -> (S, History<S>, bool)
where
    S::Op: Clone + Debug + PartialEq + Hash + Send + Sync,
    S::Ret: Clone + Debug + PartialEq + Hash + Send + Sync,
{
    let init = S::init(&mut case.rng);
    let threads = case.rng.range(1, 4);
    let source = case.rng.below(10);
    let mut h = if source < 6 {
        gen_plausible(&mut case.rng, &init, threads, max_ops)
    } else {
        gen_random::<S>(&mut case.rng, threads, max_ops * 2)
    };
    if source == 9 {
        make_ill_formed(&mut case.rng, &mut h, threads);
    }
    let ops = if well_formed(&h) { op_instances(&h) } else { Vec::new() };
    // non-trivial: at least two operations of different threads overlap in real time
    let overlap = ops.iter().enumerate().any(|(i, a)| {
        ops.iter().enumerate().any(|(j, b)| {
            i != j && a.thread != b.thread && a.inv < b.inv && a.ret.as_ref().map(|(r, _)| *r > b.inv).unwrap_or(true)
        })
    });
    (init, h, overlap)
}

pub fn random_case<S: SpecGen>(case: &mut Case, max_ops: usize)
where
    S::Op: Clone + Debug + PartialEq + Hash + Send + Sync,
    S::Ret: Clone + Debug + PartialEq + Hash + Send + Sync,
{
    let (init, h, overlap) = draw_history::<S>(case, max_ops);
    case.distinct(hash_of(&(S::NAME, format!("{:?}", init), &h)), overlap);
    case.sample(|| history_json(&init, &h));
    judge_history::<S, LinearizabilityTester<u8, S>>(case, "C08", &init, &h);
}

pub fn enumerate_case<S: SpecGen, T: TesterApi<S>>(case: &mut Case, pid: &str, init: S, threads: usize, len: usize)
where
    S::Op: Clone + Debug + PartialEq + Hash + Send + Sync,
    S::Ret: Clone + Debug + PartialEq + Hash + Send + Sync,
{
    // complete enumeration over a reduced alphabet (first 3 ops, first 3 returns)
    let ops: Vec<S::Op> = S::ops().into_iter().take(3).collect();
    let rets: Vec<S::Ret> = S::rets().into_iter().take(3).collect();
    let mut count = 0u64;
    let mut stop = false;
    enumerate_histories::<S>(threads, len, &ops, &rets, &mut |h| {
        if stop {
            return;
        }
        count += 1;
        if judge_history::<S, T>(case, pid, &init, h).is_none() && case.ctx.out_of_time() {
            stop = true;
        }
    });
    case.add("histories_enumerated", count);
    case.distinct(hash_of(&(S::NAME, threads, len, format!("{:?}", init))), len >= 3 && threads >= 2);
    case.sample(|| json!({"enumeration": format!("all well-formed {} histories with {} events over <= {} threads, ops {:?}, returns {:?}, init {:?}", S::NAME, len, threads, ops, rets, init)}));
}

pub fn run(ctx: &mut Ctx) {
    ctx.rule = "G3 histories over 1-4 threads for Register, WORegister, Vec and two harness-defined specifications \
        (saturating counter, FIFO queue): 60% plausible (random linearization, then perturbed return values / \
        swapped events), 30% uniformly random well-formed (arbitrary returns, pending operations), 10% ill-formed \
        (second invocation in flight, orphan return, unknown thread). Thorough adds the complete enumeration of \
        all well-formed histories up to 6 events over <=3 threads on a 3-op/3-return alphabet. Oracle: brute \
        force over all total orders admitted by the definition. Non-trivial: two operations of different threads \
        overlap in real time; distinct by hash of (spec, initial object, event list)."
        .into();
    ctx.assumptions = vec!["oracle search budget 2e6 nodes per history; exhaustion is inconclusive".into()];
    let ctx = &*ctx;
    let n = ctx.n(40000, 600000);
    ctx.cases("random/Register", n, 0, |c| random_case::<Register<char>>(c, 7));
    ctx.cases("random/WORegister", n, 0, |c| random_case::<WORegister<char>>(c, 7));
    ctx.cases("random/Vec", n, 0, |c| random_case::<Vec<char>>(c, 7));
    ctx.cases("random/Counter", n / 2, 0, |c| random_case::<Counter>(c, 7));
    ctx.cases("random/Fifo", n / 2, 0, |c| random_case::<Fifo>(c, 7));
    if !ctx.quick() {
        ctx.cases("random_long/Register", 30000, 0, |c| random_case::<Register<char>>(c, 9));
        ctx.cases("random_long/Vec", 30000, 0, |c| random_case::<Vec<char>>(c, 9));
    }
    // complete enumeration: case k = (length, threads)
    let max_len = ctx.n(4, 6);
    let mut plans = Vec::new();
    for len in 1..=max_len {
        for threads in 1..=3usize {
            plans.push((len as usize, threads));
        }
    }
    let plans = &plans;
    ctx.cases("enumerate/Register", plans.len() as u64, 0, |c| {
        let (len, threads) = plans[c.k as usize];
        enumerate_case::<Register<char>, LinearizabilityTester<u8, Register<char>>>(c, "C08", Register('A'), threads, len);
    });
    ctx.cases("enumerate/Vec", plans.len() as u64, 0, |c| {
        let (len, threads) = plans[c.k as usize];
        enumerate_case::<Vec<char>, LinearizabilityTester<u8, Vec<char>>>(c, "C08", vec![], threads, len);
    });
    ctx.cases("enumerate/WORegister", plans.len() as u64, 0, |c| {
        let (len, threads) = plans[c.k as usize];
        enumerate_case::<WORegister<char>, LinearizabilityTester<u8, WORegister<char>>>(c, "C08", WORegister(None), threads, len);
    });
    if !ctx.quick() && !ctx.is_replay() && std::env::var_os("SVMON_LANE").is_none() {
        crate::checks::c05::miri_smoke_lane(ctx, "c08", "C08");
    }
}
