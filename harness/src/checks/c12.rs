//! C12 — run controls are honoured: finish conditions, targets, depth, timeout, seed.

use crate::checks::c01::add_props_with_keepalive;
use crate::checks::c03::{gen_finish_when, gen_props_all_kinds};
use crate::ctx::{Case, Ctx};
use crate::graph::*;
use crate::runner::*;
use crate::worker::{last_json, run_worker};
use serde_json::json;
use stateright::{Checker, Chooser, Expectation, HasDiscoveries, Model, Path, Property};
use std::collections::BTreeSet;
use std::sync::atomic::{AtomicBool, AtomicU64, Ordering};
use std::sync::{Arc, Mutex};
use std::time::{Duration, Instant};

// -- 1. HasDiscoveries::matches vs the definitional reading ------------------------------------

fn matches_case(case: &mut Case) {
    let nprops = case.rng.range(0, 8);
    let mut g = GraphData::new(1);
    for _ in 0..nprops {
        g.labels.push(vec![true]);
        let kind = case.rng.pick(&[Expectation::Always, Expectation::Sometimes, Expectation::Eventually]).clone();
        g.props.push((kind, g.labels.len() - 1));
    }
    let model = GraphModel(Arc::new(g));
    let props = model.properties();
    let mut discovered: BTreeSet<&'static str> = BTreeSet::new();
    let density = *case.rng.pick(&[0u32, 20, 50, 80, 100]);
    for p in &props {
        if case.rng.pct(density) {
            discovered.insert(p.name);
        }
    }
    let mut set: BTreeSet<&'static str> = BTreeSet::new();
    for name in NAMES.iter().take(nprops) {
        if case.rng.pct(40) {
            set.insert(*name);
        }
    }
    if case.rng.pct(10) {
        set.insert("zz");
    }
    let failures: Vec<&'static str> = props
        .iter()
        .filter(|p| matches!(p.expectation, Expectation::Always | Expectation::Eventually))
        .map(|p| p.name)
        .collect();
    let variants: Vec<(HasDiscoveries, bool, &str)> = vec![
        (HasDiscoveries::All, props.iter().all(|p| discovered.contains(p.name)), "All"),
        (HasDiscoveries::Any, !discovered.is_empty(), "Any"),
        (HasDiscoveries::AnyFailures, failures.iter().any(|n| discovered.contains(n)), "AnyFailures"),
        (HasDiscoveries::AllFailures, failures.iter().all(|n| discovered.contains(n)), "AllFailures"),
        (HasDiscoveries::AllOf(set.clone()), set.iter().all(|n| discovered.contains(n)), "AllOf"),
        (HasDiscoveries::AnyOf(set.clone()), set.iter().any(|n| discovered.contains(n)), "AnyOf"),
    ];
    case.distinct(
        crate::ctx::hash_of(&(props.iter().map(|p| expectation_tag(&p.expectation)).collect::<Vec<_>>(), &discovered, &set)),
        nprops >= 2 && !discovered.is_empty() && discovered.len() < nprops,
    );
    case.sample(|| json!({"properties": props.iter().map(|p| format!("{}:{}", p.name, expectation_tag(&p.expectation))).collect::<Vec<_>>(),
                          "discovered": discovered, "set": set}));
    for (variant, expected, name) in variants {
        let got = variant.matches(&discovered, &props);
        case.add("matches_compared", 1);
        if got != expected {
            case.violation(
                &format!("C12/matches/{}-disagrees-with-its-name", name),
                json!({"variant": format!("{:?}", variant), "discovered": discovered, "expected": expected, "got": got,
                       "properties": props.iter().map(|p| format!("{}:{}", p.name, expectation_tag(&p.expectation))).collect::<Vec<_>>()}),
            );
            return;
        }
    }
}

// -- 2. early stop only for a reason -----------------------------------------------------------

fn early_stop_case(case: &mut Case) {
    let mut g = gen_graph(&mut case.rng, &Knobs { max_n: 40, ..Knobs::default() });
    let reach = g.reach();
    let k = case.rng.range(1, 6);
    gen_props_all_kinds(&mut case.rng, &mut g, &reach, k);
    let hash = g.structural_hash();
    let model = GraphModel(Arc::new(g));
    case.sample(|| model.summary());
    let mut stopped_early = false;
    for strategy in [Strategy::Bfs, Strategy::Dfs] {
        let threads = *case.rng.pick(&[1usize, 1, 2, 4]);
        let finish_when = gen_finish_when(&mut case.rng, model.props.len());
        let cfg = RunCfg { threads, visitor: 2, finish_when: finish_when.clone(), ..RunCfg::default() };
        let out = run_checker(&model, strategy, &cfg, false);
        if !out.finished {
            case.inconclusive("run did not finish within the watchdog");
            continue;
        }
        if !out.worker_panics.is_empty() || out.discoveries_panic.is_some() {
            case.violation(&format!("C12/finish_when/{}/panicked", strategy.name()), json!({"model": model.summary()}));
            return;
        }
        case.add(&format!("runs_finish_when_{}", strategy.name()), 1);
        let visited: BTreeSet<u32> = out.visited_states.iter().copied().collect();
        let exhaustive = (0..model.n).all(|s| !reach.reachable[s] || visited.contains(&(s as u32)));
        if exhaustive {
            continue;
        }
        stopped_early = true;
        case.add("early_stops_observed", 1);
        let names: BTreeSet<&'static str> = out.discoveries.keys().copied().collect();
        let all_discovered = names.len() == model.props.len();
        let fw = finish_when.unwrap_or(HasDiscoveries::All);
        let matched = fw.matches(&names, &model.properties());
        if !matched && !all_discovered {
            case.violation(
                &format!("C12/finish_when/{}/stopped-early-without-reason", strategy.name()),
                json!({"model": model.summary(), "threads": threads, "finish_when": format!("{:?}", fw),
                       "discoveries": names, "visited": visited.len(), "reachable": reach.count}),
            );
            return;
        }
    }
    case.distinct(hash, stopped_early);
}

// -- 3. target_state_count ---------------------------------------------------------------------

fn target_count_case(case: &mut Case) {
    let large = case.rng.pct(25);
    let mut g = if large {
        let mut g = gen_graph(&mut case.rng, &Knobs { layered: Some((5, 1200)), ..Knobs::default() });
        // many initial states, so that the reachable set spans several 1500-state blocks (the
        // target is only looked at between blocks)
        g.inits = (0..case.rng.range(200, 600) as u32).collect();
        // boundary cuts: successors that are generated but lie outside must not count
        if case.rng.pct(60) {
            for s in 1200..g.n {
                if case.rng.pct(25) {
                    g.inb[s] = false;
                }
            }
        }
        g
    } else {
        gen_graph(&mut case.rng, &Knobs { max_n: 40, allow_outside_inits: false, ..Knobs::default() })
    };
    let reach = g.reach();
    add_props_with_keepalive(&mut case.rng, &mut g, &reach, 1);
    let hash = g.structural_hash();
    let model = GraphModel(Arc::new(g));
    case.sample(|| model.summary());
    let mut cut = false;
    let mut never = BTreeSet::new();
    never.insert("zz");
    for strategy in [Strategy::Bfs, Strategy::Dfs, Strategy::OnDemand, Strategy::Simulation(case.rng.next_u64() % 100)] {
        if matches!(strategy, Strategy::Simulation(_)) && reach.count == 0 {
            continue;
        }
        let threads = *case.rng.pick(&[1usize, 2, 4]);
        let target = if large { case.rng.range(100, 8000) } else { case.rng.range(1, reach.generated.max(1) + 3) };
        let cfg = RunCfg {
            threads,
            visitor: 2,
            finish_when: Some(HasDiscoveries::AllOf(never.clone())),
            target_state_count: Some(target),
            watchdog: Duration::from_secs(30),
            ..RunCfg::default()
        };
        let out = run_checker(&model, strategy, &cfg, false);
        if !out.finished {
            if matches!(strategy, Strategy::Simulation(_)) && reach.generated < target {
                // a simulation can only end through its target; fewer states exist than asked for
                continue;
            }
            case.inconclusive(&format!("{} did not finish within the watchdog", strategy.name()));
            continue;
        }
        case.add(&format!("runs_target_{}", strategy.name()), 1);
        let visited: BTreeSet<u32> = out.visited_states.iter().copied().collect();
        let exhaustive = strategy.exhaustive() && (0..model.n).all(|s| !reach.reachable[s] || visited.contains(&(s as u32)));
        if exhaustive {
            continue;
        }
        cut = true;
        case.add("runs_cut_by_target", 1);
        // What was really generated, recomputed from what the visitor saw: the exhaustive
        // checkers expand every state they evaluate, so the generated states are the in-boundary
        // initial states plus the in-boundary successors (with repeats) of every evaluated state.
        // The checker's own counter is not trusted for this.
        if strategy.exhaustive() {
            let inb_inits = model.inits.iter().filter(|i| model.inb[**i as usize]).count();
            let generated: usize = inb_inits
                + visited
                    .iter()
                    .map(|s| model.out[*s as usize].iter().filter(|e| matches!(e, Some(t) if model.inb[*t as usize])).count())
                    .sum::<usize>();
            case.add("generated_counts_recomputed", 1);
            if std::env::var_os("SVMON_DEBUG").is_some() {
                eprintln!("[c12] {} t={} target={} reported={} recomputed={} visited={} cuts={}", strategy.name(), threads, target, out.state_count, generated, visited.len(), model.inb.iter().filter(|b| !**b).count());
            }
            if generated < target {
                case.violation(
                    &format!("C12/target_state_count/{}/stopped-below-target-although-more-exist", strategy.name()),
                    json!({"model": model.summary(), "threads": threads, "target": target, "state_count_reported": out.state_count,
                           "generated_recomputed_from_evaluated_states": generated, "visited": visited.len(), "reachable": reach.count}),
                );
                return;
            }
        }
        if out.state_count < target {
            case.violation(
                &format!("C12/target_state_count/{}/stopped-below-target-although-more-exist", strategy.name()),
                json!({"model": model.summary(), "threads": threads, "target": target, "state_count": out.state_count,
                       "visited": visited.len(), "reachable": reach.count}),
            );
            return;
        }
    }
    case.distinct(hash, cut);
}

// -- 4. target_max_depth -----------------------------------------------------------------------

fn depth_case(case: &mut Case) {
    let mut g = gen_graph(&mut case.rng, &Knobs { max_n: 40, allow_outside_inits: false, ..Knobs::default() });
    let reach = g.reach();
    add_props_with_keepalive(&mut case.rng, &mut g, &reach, 1);
    let hash = g.structural_hash();
    let model = GraphModel(Arc::new(g));
    case.sample(|| model.summary());
    let maxd = reach.dist.iter().filter(|d| **d != u32::MAX).max().copied().unwrap_or(0) as usize;
    let limit = case.rng.range(1, maxd + 3);
    case.distinct(hash ^ limit as u64, limit <= maxd + 1 && reach.count >= 2);
    for strategy in [Strategy::Bfs, Strategy::Dfs, Strategy::OnDemand, Strategy::Simulation(case.rng.next_u64() % 100)] {
        let sim = matches!(strategy, Strategy::Simulation(_));
        if sim && reach.count == 0 {
            continue;
        }
        let threads = if strategy == Strategy::Bfs && case.rng.pct(60) { 1 } else { *case.rng.pick(&[1usize, 2, 4]) };
        let cfg = RunCfg {
            threads,
            visitor: 1,
            target_max_depth: Some(limit),
            target_state_count: if sim { Some(case.rng.range(3, 60)) } else { None },
            watchdog: Duration::from_secs(20),
            ..RunCfg::default()
        };
        let out = run_checker(&model, strategy, &cfg, false);
        if !out.finished {
            case.inconclusive(&format!("{} did not finish within the watchdog", strategy.name()));
            continue;
        }
        case.add(&format!("runs_depth_{}", strategy.name()), 1);
        let desc = || json!({"model": model.summary(), "strategy": strategy.name(), "threads": threads, "target_max_depth": limit});
        for p in &out.visits {
            case.add("visit_depths_checked", 1);
            if p.len() > limit {
                case.violation(
                    &format!("C12/target_max_depth/{}/evaluated-state-deeper-than-limit", strategy.name()),
                    json!({"run": desc(), "path": path_json(p), "states_on_path": p.len()}),
                );
                return;
            }
        }
        if out.max_depth > limit {
            case.violation(
                &format!("C12/target_max_depth/{}/max_depth-exceeds-limit", strategy.name()),
                json!({"run": desc(), "max_depth": out.max_depth}),
            );
            return;
        }
        if strategy == Strategy::Bfs && threads == 1 {
            let visited: BTreeSet<u32> = out.visited_states.iter().copied().collect();
            for s in 0..model.n {
                if reach.reachable[s] && (reach.dist[s] as usize + 1) < limit && !visited.contains(&(s as u32)) {
                    case.violation(
                        "C12/target_max_depth/bfs/state-nearer-than-limit-not-evaluated",
                        json!({"run": desc(), "state": s, "distance": reach.dist[s]}),
                    );
                    return;
                }
            }
        }
    }
}

// -- 5. timeout expiry (worker subprocess) -----------------------------------------------------

/// Effectively unbounded binary tree (2^40 states, depth 40) or chain (2^64 states) over u64.
#[derive(Clone)]
pub struct TreeModel {
    pub spin_us: u64,
    pub late_after: Instant,
    pub late: Arc<AtomicU64>,
    pub total: Arc<AtomicU64>,
    pub chain: bool,
}

impl Model for TreeModel {
    type State = u64;
    type Action = u8;
    fn init_states(&self) -> Vec<u64> {
        vec![0]
    }
    fn actions(&self, _s: &u64, actions: &mut Vec<u8>) {
        self.total.fetch_add(1, Ordering::Relaxed);
        if Instant::now() > self.late_after {
            self.late.fetch_add(1, Ordering::Relaxed);
        }
        spin(self.spin_us);
        if !self.chain && *_s >= (1u64 << 40) - 1 {
            // 2^40 states are "effectively unbounded" for a 1 s timeout, and a depth of at most
            // 40 keeps depth-first blocks cheap (DFS clones the path per successor, so an
            // unboundedly deep tree makes every block quadratic and `join` late under load)
            return;
        }
        actions.push(0);
        if !self.chain {
            actions.push(1);
        }
    }
    fn next_state(&self, s: &u64, a: u8) -> Option<u64> {
        if self.chain {
            // one new successor per state, 2^64 states long (2s+1 would reach the fixed point
            // u64::MAX after 64 steps and end the run by exhaustion long before the timeout)
            return Some(s.wrapping_add(1));
        }
        Some(s.wrapping_mul(2).wrapping_add(1 + a as u64))
    }
    fn properties(&self) -> Vec<Property<Self>> {
        // "never" is an eventually-property that no state satisfies: a counterexample is genuine
        // only if it ends in a state without successors (the leaves of the tree; the chain has
        // none). An interrupted run must not report the prefix it happened to be working on.
        vec![Property::always("keepalive", |_, _| true), Property::eventually("never", |_, _| false)]
    }
}

impl TreeModel {
    pub fn is_terminal(&self, s: u64) -> bool {
        !self.chain && s >= (1u64 << 40) - 1
    }
}

/// `svmon --worker timeout <strategy> <threads> <timeout_ms> <spin_us> <depth_limit|0> <chain 0/1>`
pub fn timeout_worker(args: &[String]) -> i32 {
    let strategy = args[0].as_str();
    let threads: usize = args[1].parse().unwrap();
    let timeout_ms: u64 = args[2].parse().unwrap();
    let spin_us: u64 = args[3].parse().unwrap();
    let depth: usize = args[4].parse().unwrap();
    let chain = args[5] == "1";
    // optional: time that passes between configuring the builder (incl. its timeout) and spawning
    let builder_delay_ms: u64 = args.get(6).and_then(|a| a.parse().ok()).unwrap_or(0);
    let grace = Duration::from_millis(2500);
    let mut t0 = Instant::now();
    let model = TreeModel {
        spin_us,
        late_after: t0 + Duration::from_millis(builder_delay_ms) + Duration::from_millis(timeout_ms) + grace,
        late: Arc::new(AtomicU64::new(0)),
        total: Arc::new(AtomicU64::new(0)),
        chain,
    };
    let (late, total) = (model.late.clone(), model.total.clone());
    let model_for_paths = model.clone();
    let mut b = model.checker().threads(threads).timeout(Duration::from_millis(timeout_ms));
    if depth > 0 {
        b = b.target_max_depth(depth);
    }
    if builder_delay_ms > 0 {
        // the timeout is a property of the *check*: its clock starts when the check is spawned,
        // however long ago the builder was configured
        std::thread::sleep(Duration::from_millis(builder_delay_ms));
        t0 = Instant::now();
    }
    let joined = Arc::new(AtomicBool::new(false));
    let joined_at = Arc::new(Mutex::new(None::<f64>));
    let discovery = Arc::new(Mutex::new(serde_json::Value::Null));
    let (j2, ja2, d2) = (joined.clone(), joined_at.clone(), discovery.clone());
    let strategy_owned = strategy.to_string();
    let model2 = model_for_paths;
    std::thread::spawn(move || {
        // what does the finished checker report for the eventually-property "never"?
        fn describe<C: Checker<TreeModel>>(c: &C, m: &TreeModel) -> serde_json::Value {
            match crate::ctx::guarded(|| c.discovery("never")) {
                Err(msg) => json!({"panic": msg}),
                Ok(None) => serde_json::Value::Null,
                Ok(Some(path)) => {
                    let states: Vec<u64> = path.into_states();
                    let last = *states.last().unwrap();
                    let real = states[0] == 0 && states.windows(2).all(|w| m.next_states(&w[0]).contains(&w[1]));
                    let closes_cycle = states[..states.len() - 1].contains(&last);
                    json!({"len": states.len(), "last": last, "is_a_real_path": real, "last_is_terminal": m.is_terminal(last), "closes_cycle": closes_cycle})
                }
            }
        }
        let d = match strategy_owned.as_str() {
            "bfs" => describe(&b.spawn_bfs().join(), &model2),
            "dfs" => describe(&b.spawn_dfs().join(), &model2),
            "on_demand" => {
                let c = b.spawn_on_demand();
                c.run_to_completion();
                describe(&c.join(), &model2)
            }
            _ => describe(&b.spawn_simulation(7, stateright::UniformChooser).join(), &model2),
        };
        *d2.lock().unwrap() = d;
        *ja2.lock().unwrap() = Some(t0.elapsed().as_secs_f64());
        j2.store(true, Ordering::SeqCst);
    });
    let observe_until = t0 + Duration::from_millis(timeout_ms) + grace + Duration::from_millis(2500);
    while Instant::now() < observe_until && !joined.load(Ordering::SeqCst) {
        std::thread::sleep(Duration::from_millis(10));
    }
    // join not back: is anything still being evaluated? (three samples one second apart)
    let mut quiescent = false;
    if !joined.load(Ordering::SeqCst) {
        let mut samples = vec![total.load(Ordering::Relaxed)];
        for _ in 0..3 {
            std::thread::sleep(Duration::from_secs(1));
            samples.push(total.load(Ordering::Relaxed));
        }
        quiescent = samples.windows(2).all(|w| w[0] == w[1]) && !joined.load(Ordering::SeqCst);
    }
    println!(
        "{}",
        json!({"joined": joined.load(Ordering::SeqCst), "quiescent_but_not_joined": quiescent, "joined_at_s": *joined_at.lock().unwrap(), "never_discovery": *discovery.lock().unwrap(),
               "late_evaluations": late.load(Ordering::Relaxed), "total_evaluations": total.load(Ordering::Relaxed),
               "observed_s": t0.elapsed().as_secs_f64()})
    );
    0
}

fn timeout_expiry(ctx: &Ctx) {
    let strategies = ["bfs", "dfs", "on_demand", "simulation_depth", "simulation"];
    let mut scenarios: Vec<(String, usize, u64, usize, bool)> = Vec::new();
    for s in strategies {
        for threads in [1usize, 2, 4] {
            let depth = if s == "simulation_depth" { 40 } else { 0 };
            scenarios.push((s.to_string(), threads, 30, depth, false));
        }
    }
    // a chain-shaped model: the frontier never holds more than one state
    scenarios.push(("bfs".into(), 1, 30, 0, true));
    scenarios.push(("bfs".into(), 2, 30, 0, true));
    scenarios.push(("dfs".into(), 1, 30, 0, true));
    scenarios.push(("dfs".into(), 3, 30, 0, true));
    scenarios.push(("on_demand".into(), 1, 30, 0, true));
    scenarios.push(("on_demand".into(), 2, 30, 0, true));
    // sub-second and non-integral timeouts
    scenarios.push(("bfs".into(), 2, 31, 0, false));
    scenarios.push(("simulation".into(), 2, 31, 0, true));
    scenarios.push(("dfs".into(), 2, 29, 0, false));
    scenarios.push(("simulation".into(), 1, 29, 0, false));
    // the builder is configured (timeout included) 1.3 s before the check is spawned: the
    // timeout's clock must start at the spawn (spin value 28 marks these)
    scenarios.push(("bfs".into(), 2, 28, 0, false));
    scenarios.push(("dfs".into(), 1, 28, 0, true));
    scenarios.push(("simulation".into(), 2, 28, 0, true));
    // one endless simulation trace
    scenarios.push(("simulation".into(), 1, 30, 0, true));
    scenarios.push(("simulation".into(), 3, 30, 0, true));
    if !ctx.quick() {
        for s in ["bfs", "dfs", "on_demand"] {
            scenarios.push((s.to_string(), 8, 20, 0, false));
            scenarios.push((s.to_string(), 3, 50, 0, false));
        }
    }
    let scenarios = &scenarios;
    ctx.cases("timeout_expiry", scenarios.len() as u64, 8, |case| {
        let (strategy, threads, spin_us, depth, chain) = scenarios[case.k as usize].clone();
        // most scenarios use a 1 s timeout; a few a sub-second or a 1.7 s one (marked by the
        // spin value 31 / 29 so that the scenario table keeps its shape)
        let timeout_ms = match spin_us {
            31 => 300u64,
            29 => 1700,
            _ => 1000,
        };
        let sname = strategy.trim_end_matches("_depth");
        let mut args: Vec<String> = vec![
            "timeout".into(), sname.into(), threads.to_string(), timeout_ms.to_string(),
            spin_us.to_string(), depth.to_string(), if chain { "1".into() } else { "0".into() },
        ];
        if spin_us == 28 {
            args.push("1300".into());
        }
        case.distinct(crate::ctx::hash_of(&args), true);
        case.sample(|| json!({"scenario": args}));
        let out = run_worker(&args, Duration::from_secs(30));
        let Some(v) = last_json(&out) else {
            case.inconclusive(&format!("worker produced no result (killed={} code={:?})", out.killed, out.exit_code));
            return;
        };
        let shape = if chain { "/chain-model" } else { "" };
        let tclass = if threads == 1 { "single-thread" } else { "multi-thread" };
        // the scenario only says something if the run outlived its timeout: a model that is
        // exhausted earlier (harness defect) must not count as an observation
        // The models cannot be exhausted within the timeout (2^40 / 2^64 states at >= 20 us per
        // state) and no finish condition or target is set, so the only reason to stop is the
        // timeout: a run that returns from join clearly *before* it expired stopped without a
        // reason ("an unexpired timeout changes neither results nor progress"). The harness
        // clock starts before the checker's, so measured time can only be longer.
        if v["joined"].as_bool() == Some(true) && v["joined_at_s"].as_f64().unwrap_or(f64::MAX) < timeout_ms as f64 / 1000.0 * 0.9 {
            case.violation(
                &format!("C12/timeout/{}/{}{}/stopped-before-the-timeout-expired", strategy, tclass, shape),
                json!({"scenario": args, "result": v, "timeout_ms": timeout_ms}),
            );
            return;
        }
        case.add("timeout_scenarios_observed", 1);
        case.add("evaluations_observed", v["total_evaluations"].as_u64().unwrap_or(0));
        let late = v["late_evaluations"].as_u64().unwrap_or(0);
        let joined = v["joined"].as_bool().unwrap_or(false);
        let bound = 2 * 1500 * threads as u64;
        if late > bound {
            case.violation(
                &format!("C12/timeout/{}/{}{}/keeps-evaluating-after-expiry", strategy, tclass, shape),
                json!({"scenario": args, "result": v, "bound_on_late_evaluations": bound,
                       "note": "evaluations that started more than 2.5 s after the 1 s timeout expired"}),
            );
        } else if !joined && v["quiescent_but_not_joined"].as_bool() == Some(true) {
            // nothing was evaluated for three seconds, well after the expiry, and join still has
            // not returned: the workers are not busy, they are stuck
            case.violation(
                &format!("C12/timeout/{}/{}{}/join-does-not-return-although-nothing-is-evaluated-any-more", strategy, tclass, shape),
                json!({"scenario": args, "result": v}),
            );
        } else if !joined {
            case.inconclusive(&format!("{} t={}: few late evaluations ({}) but join had not returned {:.1}s after start", strategy, threads, late, v["observed_s"].as_f64().unwrap_or(0.0)));
        }
    });
}

// -- 6. an unexpired timeout is transparent ----------------------------------------------------

fn unexpired_timeout(ctx: &Ctx) {
    ctx.cases("unexpired_timeout", ctx.n(4, 24), 1, |case| {
        let (d, w) = *case.rng.pick(&[(6usize, 2500usize), (8, 1500), (5, 4000)]);
        let mut g = gen_graph(&mut case.rng, &Knobs { layered: Some((d, w)), ..Knobs::default() });
        let reach = g.reach();
        add_props_with_keepalive(&mut case.rng, &mut g, &reach, 2);
        case.distinct(g.structural_hash(), true);
        let model = GraphModel(Arc::new(g));
        case.sample(|| model.summary());
        let strategy = *case.rng.pick(&[Strategy::Bfs, Strategy::Dfs, Strategy::OnDemand]);
        let threads = *case.rng.pick(&[1usize, 2, 4, 8]);
        let mut slow = 0;
        let mut reps = Vec::new();
        for rep in 0..3 {
            let base = RunCfg { threads, visitor: 2, watchdog: Duration::from_secs(120), ..RunCfg::default() };
            let without = run_checker(&model, strategy, &base, false);
            let with = run_checker(&model, strategy, &RunCfg { timeout: Some(Duration::from_secs(3600)), ..base.clone() }, false);
            if !without.finished || !with.finished {
                if without.finished && !with.finished {
                    slow += 1;
                    reps.push(json!({"without_s": without.elapsed.as_secs_f64(), "with_s": "did not finish in 120 s"}));
                    continue;
                }
                case.inconclusive("run without timeout did not finish within the watchdog");
                return;
            }
            if rep == 0 {
                let a: BTreeSet<u32> = without.visited_states.iter().copied().collect();
                let b: BTreeSet<u32> = with.visited_states.iter().copied().collect();
                let da: BTreeSet<&str> = without.discoveries.keys().copied().collect();
                let db: BTreeSet<&str> = with.discoveries.keys().copied().collect();
                case.add("states_compared", a.len() as u64);
                if a != b || da != db || without.visited_states.len() != with.visited_states.len() {
                    case.violation(
                        &format!("C12/timeout/{}/unexpired-timeout-changes-results", strategy.name()),
                        json!({"model": model.summary(), "threads": threads, "visited_without": a.len(), "visited_with": b.len(),
                               "discoveries_without": da, "discoveries_with": db}),
                    );
                    return;
                }
            }
            let (tw, t) = (with.elapsed.as_secs_f64(), without.elapsed.as_secs_f64());
            if t > 1.0 {
                case.inconclusive("machine too loaded: the run without timeout took more than 1 s");
                return;
            }
            reps.push(json!({"without_s": t, "with_s": tw}));
            if tw > (20.0 * t).max(t + 1.5) {
                slow += 1;
            }
        }
        case.add("timing_pairs_compared", reps.len() as u64);
        if slow == 3 {
            case.violation(
                &format!("C12/timeout/{}/{}/unexpired-timeout-throttles-progress", strategy.name(), if threads == 1 { "single-thread" } else { "multi-thread" }),
                json!({"model": model.summary(), "threads": threads, "repetitions": reps,
                       "rule": "violated only if all 3 repetitions exceed max(20 x T_without, T_without + 1.5 s)"}),
            );
        }
    });
}

// -- 7. seed replay ----------------------------------------------------------------------------

#[derive(Clone)]
struct RecChooser {
    seeds: Arc<Mutex<Vec<u64>>>,
}

/// A chooser whose answers depend only on the trace's seed, the current state and the options
/// offered (not on how often it was asked before), so that the expected trace does not depend
/// on implementation details such as whether the chooser is consulted when there is one option.
fn stateless_choice(seed: u64, at: u64, options: &[u16]) -> usize {
    (crate::rng::mix(&[seed, at, crate::ctx::hash_of(&options)]) % options.len() as u64) as usize
}

impl Chooser<GraphModel> for RecChooser {
    type State = u64;
    fn new_state(&self, seed: u64) -> Self::State {
        self.seeds.lock().unwrap().push(seed);
        seed
    }
    fn choose_initial_state(&self, state: &mut Self::State, initial_states: &[u32]) -> usize {
        let as_options: Vec<u16> = initial_states.iter().map(|s| *s as u16).collect();
        stateless_choice(*state, u64::MAX, &as_options)
    }
    fn choose_action(&self, state: &mut Self::State, current: &u32, actions: &[u16]) -> usize {
        stateless_choice(*state, *current as u64, actions)
    }
}

/// The first trace = visited paths up to (not including) the first visit that restarts at length 1.
fn first_trace(visits: &[PathVec]) -> Vec<PathVec> {
    let mut out = Vec::new();
    for (i, p) in visits.iter().enumerate() {
        if i > 0 && p.len() == 1 {
            break;
        }
        out.push(p.clone());
    }
    out
}

fn seed_replay_case(case: &mut Case) {
    let mut g = gen_graph(&mut case.rng, &Knobs { max_n: 40, allow_outside_inits: false, ..Knobs::default() });
    let reach = g.reach();
    add_props_with_keepalive(&mut case.rng, &mut g, &reach, 1);
    if reach.count == 0 {
        case.distinct(g.structural_hash(), false);
        return;
    }
    let hash = g.structural_hash();
    let model = GraphModel(Arc::new(g));
    case.sample(|| model.summary());
    let seed = case.rng.next_u64() % 10_000;
    let target = case.rng.range(3, 80);
    let mut traces: Vec<Vec<PathVec>> = Vec::new();
    for _ in 0..2 {
        let cfg = RunCfg { threads: 1, visitor: 1, target_state_count: Some(target), watchdog: Duration::from_secs(20), ..RunCfg::default() };
        let out = run_checker(&model, Strategy::Simulation(seed), &cfg, false);
        if !out.finished {
            case.inconclusive("simulation did not finish within the watchdog");
            return;
        }
        traces.push(first_trace(&out.visits));
    }
    case.add("uniform_chooser_replays", 1);
    case.distinct(hash ^ seed, traces[0].len() >= 2);
    if traces[0] != traces[1] {
        case.violation(
            "C12/seed/uniform-chooser-first-trace-differs",
            json!({"model": model.summary(), "seed": seed, "first": traces[0].iter().map(path_json).collect::<Vec<_>>(),
                   "second": traces[1].iter().map(path_json).collect::<Vec<_>>()}),
        );
        return;
    }
    // recording chooser: the user seed must reach the first trace unchanged, and replay equally
    let mut rec_traces = Vec::new();
    for _ in 0..2 {
        let log = VisitLog::default();
        let seeds = Arc::new(Mutex::new(Vec::new()));
        let chooser = RecChooser { seeds: seeds.clone() };
        let mut c = model
            .clone()
            .checker()
            .threads(1)
            .target_state_count(target)
            .visitor(log.clone())
            .spawn_simulation(seed, chooser);
        let t = Instant::now();
        let hs = c.handles();
        while hs.iter().any(|h| !h.is_finished()) {
            if t.elapsed() > Duration::from_secs(20) {
                case.inconclusive("simulation with recording chooser did not finish within the watchdog");
                return;
            }
            std::thread::sleep(Duration::from_micros(200));
        }
        let first_seed = seeds.lock().unwrap().first().copied();
        if first_seed != Some(seed) {
            case.violation(
                "C12/seed/first-trace-does-not-get-the-user-seed",
                json!({"model": model.summary(), "seed": seed, "seed_given_to_first_trace": first_seed}),
            );
            return;
        }
        rec_traces.push(first_trace(&log.take()));
    }
    case.add("recording_chooser_replays", 1);
    if rec_traces[0] != rec_traces[1] {
        case.violation(
            "C12/seed/recording-chooser-first-trace-differs",
            json!({"model": model.summary(), "seed": seed}),
        );
        return;
    }
    // The trace must be what the chooser dictates, as far as the statement goes: the chosen
    // initial state, then at every state the action the chooser picks among all enabled actions.
    // The expectation stops where the implementation has latitude: when the chosen action is
    // ignored or leads outside the boundary (how a second choice is offered is not specified),
    // at a state seen before (cycle) and at a terminal state.
    let inits = model.init_states();
    let init_options: Vec<u16> = inits.iter().map(|s| *s as u16).collect();
    let mut state = inits[stateless_choice(seed, u64::MAX, &init_options)];
    let mut expect: Vec<u32> = Vec::new();
    let mut seen = BTreeSet::new();
    loop {
        if !model.inb[state as usize] || !seen.insert(state) {
            break;
        }
        expect.push(state);
        let actions: Vec<u16> = (0..model.out[state as usize].len() as u16).collect();
        if actions.is_empty() {
            break;
        }
        let a = actions[stateless_choice(seed, state as u64, &actions)];
        match model.out[state as usize][a as usize] {
            Some(t) if model.inb[t as usize] => state = t,
            _ => break, // a second choice would be needed here
        }
    }
    let got: Vec<u32> = rec_traces[0].iter().map(|p| p.last().unwrap().0).collect();
    case.add("chooser_dictated_traces_compared", 1);
    if got.len() < expect.len() || got[..expect.len()] != expect[..] {
        case.violation(
            "C12/seed/first-trace-does-not-follow-the-chooser",
            json!({"model": model.summary(), "seed": seed, "visited": got, "dictated_by_chooser_up_to_the_first_second_choice": expect}),
        );
    }
}

#[allow(dead_code)]
fn unused(_: Path<u32, u16>) {}

pub fn run(ctx: &mut Ctx) {
    ctx.rule = "Seven sub-checks: (matches) random property lists x discovery subsets x all six HasDiscoveries \
        variants vs the definitional reading; (finish_when) G1 runs with random finish conditions: a \
        non-exhaustive run must satisfy its condition or have every property discovered; (target_state_count) \
        runs cut short must have generated >= target; (target_max_depth) no visited path longer than the limit, \
        max_depth() <= limit, 1-thread BFS complete below the limit; (timeout_expiry) unbounded tree/chain \
        models in worker subprocesses, 1 s timeout, all strategies x {1,2,4} threads, verdict by the number of \
        evaluations started > 2.5 s after expiry; (unexpired_timeout) same run with/without a 1 h timeout; \
        (seed) 1-thread simulation replayed twice with UniformChooser and with a recording chooser. \
        Non-trivial: the control under test actually cut the run short / the trace has >= 2 states."
        .into();
    ctx.assumptions = vec![
        "timeout verdicts use logical bounds (evaluations after expiry + 2.5 s <= 2 blocks per thread); a late join with few late evaluations is inconclusive".into(),
        "depth is counted in states on the path (the reading under which all strategies agree)".into(),
    ];
    let ctx = &*ctx;
    ctx.cases("matches", ctx.n(20000, 400000), 0, matches_case);
    ctx.cases("finish_when", ctx.n(1500, 25000), 0, early_stop_case);
    ctx.cases("target_state_count", ctx.n(600, 10000), 0, target_count_case);
    ctx.cases("target_max_depth", ctx.n(1200, 20000), 0, depth_case);
    ctx.cases("seed_replay", ctx.n(800, 15000), 0, seed_replay_case);
    unexpired_timeout(ctx);
    timeout_expiry(ctx);
}
