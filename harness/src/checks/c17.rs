//! C17 — spawned actors see the same contract over UDP as in the model.
//!
//! A worker subprocess runs the real `spawn()` with instrumented actors on loopback UDP; a driver
//! thread owns further sockets, sends scripted / garbage datagrams and receives what the actors
//! send. Actors and driver append to one in-memory event log (monotonic clock), which the parent
//! checks offline.

use crate::ctx::{hash_of, Case, Ctx};
use crate::rng::Rng;
use crate::worker::run_worker;
use serde_json::{json, Value};
use stateright::actor::{spawn, Actor, Id, Out};
use std::borrow::Cow;
use std::collections::{BTreeMap, BTreeSet};
use std::net::{Ipv4Addr, SocketAddrV4, UdpSocket};
use std::sync::{Mutex, OnceLock};
use std::time::{Duration, Instant};

// -- messages ---------------------------------------------------------------------------------------

#[derive(Clone, Debug, PartialEq, Eq, Hash)]
pub enum UCmd {
    Send(u64, u32),
    SetTimer(u8, u64, u64),
    CancelTimer(u8),
    /// The handler blocks for this many milliseconds (a slow handler: timers become due meanwhile).
    Sleep(u64),
}

/// A datagram: a unique tag plus commands the receiving actor executes.
#[derive(Clone, Debug, PartialEq, Eq, Hash)]
pub struct UMsg {
    pub tag: u32,
    pub cmds: Vec<UCmd>,
}

/// Tags from this value on denote messages that cannot be serialised (`ser` returns an error):
/// the runtime must skip such a Send and carry on with the handler's remaining commands.
const UNSERIALISABLE_FROM: u32 = 900_000;

/// Identifies the datagrams of one scenario run. Workers of concurrently running scenarios reuse
/// each other's ports now and then (a probed port is released before the runtime binds it, pids
/// and hence port blocks wrap): every datagram carries the run id, and one with another id does
/// not deserialise here, which the runtime ignores like any other garbage.
static RUN: OnceLock<u64> = OnceLock::new();

fn ser(m: &UMsg) -> Result<Vec<u8>, String> {
    if m.tag % 1_000_000 >= UNSERIALISABLE_FROM {
        return Err("unserialisable message".into());
    }
    let mut out = format!("{}/", RUN.get().copied().unwrap_or(0)).into_bytes();
    out.extend(ser_body(m)?);
    Ok(out)
}

fn ser_body(m: &UMsg) -> Result<Vec<u8>, String> {
    let cmds: Vec<String> = m
        .cmds
        .iter()
        .map(|c| match c {
            UCmd::Send(d, t) => format!("S{}/{}", d, t),
            UCmd::SetTimer(t, lo, hi) => format!("T{}/{}/{}", t, lo, hi),
            UCmd::CancelTimer(t) => format!("C{}", t),
            UCmd::Sleep(ms) => format!("Z{}", ms),
        })
        .collect();
    Ok(format!("{}:{}", m.tag, cmds.join(",")).into_bytes())
}

fn de(bytes: &[u8]) -> Result<UMsg, String> {
    let text = std::str::from_utf8(bytes).map_err(|e| e.to_string())?;
    let (run, text) = text.split_once('/').ok_or("no run id")?;
    let run: u64 = run.parse().map_err(|_| "bad run id")?;
    if let Some(mine) = RUN.get() {
        if run != *mine {
            return Err("datagram of another scenario run".into());
        }
    }
    let (tag, rest) = text.split_once(':').ok_or("no tag")?;
    let tag: u32 = tag.parse().map_err(|_| "bad tag")?;
    let mut cmds = Vec::new();
    for c in rest.split(',').filter(|c| !c.is_empty()) {
        let (kind, args) = c.split_at(1);
        let nums: Result<Vec<u64>, _> = args.split('/').map(|x| x.parse::<u64>()).collect();
        let nums = nums.map_err(|_| "bad number")?;
        cmds.push(match (kind, nums.as_slice()) {
            ("S", [d, t]) => UCmd::Send(*d, *t as u32),
            ("T", [t, lo, hi]) => UCmd::SetTimer(*t as u8, *lo, *hi),
            ("C", [t]) => UCmd::CancelTimer(*t as u8),
            ("Z", [ms]) => UCmd::Sleep(*ms),
            _ => return Err("bad command".into()),
        });
    }
    Ok(UMsg { tag, cmds })
}

// -- instrumented actor ----------------------------------------------------------------------------

static LOG: OnceLock<Mutex<Vec<Value>>> = OnceLock::new();
static T0: OnceLock<Instant> = OnceLock::new();

fn now_us() -> u64 {
    T0.get().unwrap().elapsed().as_micros() as u64
}

fn log(v: Value) {
    LOG.get().unwrap().lock().unwrap().push(v);
}

#[derive(Clone, Debug, PartialEq, Eq, Hash)]
pub struct UState {
    pub chain: u64,
}

/// Executes the commands carried by each message; when timer `t` fires it executes
/// `on_fire[t]` (e.g. re-arm once, send a report).
pub struct ScriptActor {
    pub index: usize,
    pub start: Vec<UCmd>,
    pub on_fire: BTreeMap<u8, Vec<UCmd>>,
}

impl ScriptActor {
    fn run(&self, cmds: &[UCmd], o: &mut Out<Self>) -> Vec<Value> {
        let mut out = Vec::new();
        for c in cmds {
            match c {
                UCmd::Send(d, t) => {
                    o.send(Id::from(*d as usize), UMsg { tag: *t, cmds: vec![] });
                    out.push(json!({"send": d, "tag": t}));
                }
                UCmd::SetTimer(t, lo, hi) => {
                    o.set_timer(*t, Duration::from_millis(*lo)..Duration::from_millis(*hi));
                    out.push(json!({"set": t, "lo_ms": lo, "hi_ms": hi}));
                }
                UCmd::CancelTimer(t) => {
                    o.cancel_timer(*t);
                    out.push(json!({"cancel": t}));
                }
                UCmd::Sleep(ms) => {
                    std::thread::sleep(Duration::from_millis(*ms));
                    out.push(json!({"sleep_ms": ms}));
                }
            }
        }
        out
    }
    fn step(&self, state: &mut Cow<UState>, event: u64) -> (u64, u64) {
        let before = state.chain;
        let after = crate::rng::mix(&[before, event]);
        state.to_mut().chain = after;
        (before, after)
    }
}

impl Actor for ScriptActor {
    type Msg = UMsg;
    type Timer = u8;
    type Random = ();
    type State = UState;
    fn on_start(&self, id: Id, o: &mut Out<Self>) -> UState {
        let t = now_us();
        let cmds = self.run(&self.start, o);
        let chain = crate::rng::mix(&[self.index as u64, 1]);
        log(json!({"t": t, "t_end": now_us(), "who": "actor", "actor": self.index, "id": usize::from(id), "ev": "start", "state_in": 0, "state_out": chain, "cmds": cmds}));
        UState { chain }
    }
    fn on_msg(&self, id: Id, state: &mut Cow<UState>, src: Id, msg: UMsg, o: &mut Out<Self>) {
        let t = now_us();
        let (a, b) = self.step(state, msg.tag as u64);
        let cmds = self.run(&msg.cmds, o);
        log(json!({"t": t, "t_end": now_us(), "who": "actor", "actor": self.index, "id": usize::from(id), "ev": "msg", "src": usize::from(src), "tag": msg.tag,
                   "carried": msg.cmds.len(), "state_in": a, "state_out": b, "cmds": cmds}));
    }
    fn on_timeout(&self, id: Id, state: &mut Cow<UState>, timer: &u8, o: &mut Out<Self>) {
        let t = now_us();
        let (a, b) = self.step(state, 1_000_000 + *timer as u64);
        let cmds = match self.on_fire.get(timer) {
            Some(c) => self.run(c, o),
            None => vec![],
        };
        log(json!({"t": t, "t_end": now_us(), "who": "actor", "actor": self.index, "id": usize::from(id), "ev": "timeout", "timer": timer, "state_in": a, "state_out": b, "cmds": cmds}));
    }
}

fn free_port() -> Option<u16> {
    let s = UdpSocket::bind((Ipv4Addr::LOCALHOST, 0)).ok()?;
    s.local_addr().ok().map(|a| a.port())
}

fn id_of(port: u16) -> u64 {
    id_at(1, port)
}

/// The id of 127.0.0.<host>:<port> (all of 127/8 is local on Linux).
fn id_at(host: u8, port: u16) -> u64 {
    usize::from(Id::from(SocketAddrV4::new(Ipv4Addr::new(127, 0, 0, host), port))) as u64
}

/// `svmon --worker udp <seed>`: runs one scenario and prints the event log as one JSON line.
pub fn udp_worker(args: &[String]) -> i32 {
    let seed: u64 = args[0].parse().unwrap();
    let mut rng = Rng::new(seed);
    LOG.get_or_init(|| Mutex::new(Vec::new()));
    T0.get_or_init(Instant::now);
    let n_actors = rng.range(2, 4);
    // Actor ports: some from a per-process block below the ephemeral range (the kernel never
    // hands those out for bind(0), and concurrently running workers have different pids), some
    // ephemeral ones (>= 32768; probed free, then released for the runtime to bind - a
    // concurrent scenario may grab such a port in between, which the checker tolerates as
    // foreign traffic / an actor that did not start).
    let base = 10_000 + (std::process::id() % 2_200) as u16 * 10;
    let mut ports = Vec::new();
    for i in 0..n_actors {
        let p = if rng.pct(50) { Some(base + i as u16) } else { free_port() };
        match p {
            Some(p) if !ports.contains(&p) => ports.push(p),
            _ => {
                println!("{}", json!({"error": "no free port"}));
                return 0;
            }
        }
    }
    // Actor addresses: mostly 127.0.0.1, in a third of the scenarios other loopback addresses too -
    // an actor lives at the address its Id encodes, not merely at its port. Two actors may then share
    // a port number.
    let spread = rng.pct(35);
    let hosts: Vec<u8> = (0..n_actors).map(|_| if spread && rng.pct(70) { rng.range(2, 5) as u8 } else { 1 }).collect();
    if spread && n_actors >= 2 && hosts[0] != hosts[1] && rng.pct(50) {
        ports[1] = ports[0];
    }
    let aid = |i: usize| id_at(hosts[i], ports[i]);
    // driver sockets
    let n_driver = rng.range(1, 2);
    let mut driver_socks = Vec::new();
    for _ in 0..n_driver {
        // The kernel may hand the driver the very port that was probed free for an actor a moment
        // ago (and released for the runtime to bind): the driver would then talk to itself. Such a
        // socket is kept open until another one is bound, so that the port is not offered again.
        let mut rejected = Vec::new();
        let s = loop {
            let s = UdpSocket::bind((Ipv4Addr::LOCALHOST, 0)).unwrap();
            if ports.contains(&s.local_addr().unwrap().port()) {
                rejected.push(s);
                continue;
            }
            break s;
        };
        drop(rejected);
        s.set_read_timeout(Some(Duration::from_millis(5))).unwrap();
        driver_socks.push(s);
    }
    let driver_ports: Vec<u16> = driver_socks.iter().map(|s| s.local_addr().unwrap().port()).collect();
    let nanos = std::time::SystemTime::now().duration_since(std::time::UNIX_EPOCH).map(|d| d.as_nanos() as u64).unwrap_or(0);
    let run = crate::rng::mix(&[seed, std::process::id() as u64, nanos]) >> 1;
    let _ = RUN.set(run);
    let salt = std::process::id() % 4_000 + 1;
    let mut next_tag = 100u32;
    let mut tag = || {
        next_tag += 1;
        salt * 1_000_000 + next_tag
    };
    // actors: start-up commands and timer reactions
    let mut actors = Vec::new();
    for (i, p) in ports.iter().enumerate() {
        let mut start = Vec::new();
        if rng.pct(60) {
            start.push(UCmd::Send(id_of(*rng.pick(&driver_ports)), tag()));
        }
        if rng.pct(40) {
            let lo = rng.range(5, 60) as u64;
            start.push(UCmd::SetTimer(0, lo, lo + rng.range(0, 30) as u64));
        }
        let mut on_fire = BTreeMap::new();
        for t in 0..3u8 {
            let mut cmds = vec![UCmd::Send(id_of(*rng.pick(&driver_ports)), tag())];
            if rng.pct(25) {
                // re-arm a different timer from within a timeout handler
                let lo = rng.range(5, 40) as u64;
                cmds.push(UCmd::SetTimer((t + 1) % 3, lo, lo + 10));
            }
            if rng.pct(35) {
                // cancel another timer from within a timeout handler: if that one is due at the
                // same moment (armed with the same deadline, or both overdue after a slow
                // handler) it must not fire any more
                cmds.push(UCmd::CancelTimer((t + 1 + rng.below(2) as u8) % 3));
            }
            on_fire.insert(t, cmds);
        }
        actors.push((Id::from(SocketAddrV4::new(Ipv4Addr::new(127, 0, 0, hosts[i]), *p)), ScriptActor { index: i, start, on_fire }));
    }
    std::thread::spawn(move || {
        let r = spawn(ser, de, actors);
        log(json!({"t": now_us(), "who": "runtime", "ev": "spawn-returned", "ok": r.is_ok()}));
    });
    std::thread::sleep(Duration::from_millis(80)); // let the actors bind
    // driver script
    let steps = rng.range(15, 40);
    for _ in 0..steps {
        let sock_i = rng.below(driver_socks.len());
        let sock = &driver_socks[sock_i];
        let to = rng.below(n_actors);
        let to_addr = SocketAddrV4::new(Ipv4Addr::new(127, 0, 0, hosts[to]), ports[to]);
        match rng.below(11) {
            0 => {
                // garbage / undeserialisable / oversized / empty
                let bytes: Vec<u8> = match rng.below(4) {
                    0 => b"\xff\xfe not utf8".to_vec(),
                    1 => format!("{}/12:Zzz", run).into_bytes(), // right run id, malformed body
                    2 => Vec::new(),
                    _ => vec![b'9'; 40_000],
                };
                log(json!({"t": now_us(), "who": "driver", "ev": "send-garbage", "from_port": driver_ports[sock_i], "to_actor": to, "len": bytes.len()}));
                let _ = sock.send_to(&bytes, to_addr);
            }
            10 if spread => {
                // a well-formed datagram for the actor's port at a loopback address where no
                // actor of this run lives: nobody may be handed it
                let mut host = rng.range(2, 6) as u8;
                while (0..n_actors).any(|i| hosts[i] == host && ports[i] == ports[to]) {
                    host += 1;
                }
                let m = UMsg { tag: tag(), cmds: vec![UCmd::Send(id_of(*rng.pick(&driver_ports)), tag())] };
                log(json!({"t": now_us(), "who": "driver", "ev": "send-astray", "from_port": driver_ports[sock_i], "to_host": host, "to_port": ports[to], "tag": m.tag}));
                let _ = sock.send_to(&ser(&m).unwrap(), SocketAddrV4::new(Ipv4Addr::new(127, 0, 0, host), ports[to]));
            }
            _ => {
                let mut cmds = Vec::new();
                for _ in 0..rng.below(3) {
                    let mut extra: Vec<UCmd> = Vec::new();
                    let c = match rng.below(6) {
                        0 | 1 => {
                            let lo = rng.range(5, 80) as u64;
                            let hi = if rng.pct(30) { lo } else { lo + rng.range(1, 40) as u64 };
                            let t = rng.below(3) as u8;
                            if rng.pct(30) {
                                // a second timer with (nearly) the same deadline, and sometimes a
                                // slow handler so that both are overdue when the runtime looks
                                extra.push(UCmd::SetTimer((t + 1) % 3, lo, lo));
                                if rng.pct(50) {
                                    extra.push(UCmd::SetTimer(t, lo, lo));
                                    UCmd::Sleep(lo + rng.range(5, 60) as u64)
                                } else {
                                    UCmd::SetTimer(t, lo, hi)
                                }
                            } else {
                                UCmd::SetTimer(t, lo, hi)
                            }
                        }
                        2 => UCmd::CancelTimer(rng.below(3) as u8),
                        3 => UCmd::Send(aid(rng.below(n_actors)), tag()), // actor to actor
                        _ => UCmd::Send(id_of(*rng.pick(&driver_ports)), tag()),
                    };
                    cmds.extend(extra);
                    cmds.push(c);
                }
                if rng.pct(6) {
                    // a large but perfectly valid datagram (10-45 kB of harmless commands): it must
                    // arrive whole or not at all
                    for _ in 0..rng.range(3_000, 15_000) {
                        cmds.push(UCmd::CancelTimer(9));
                    }
                }
                if rng.pct(15) {
                    // arm a timer and cancel it again in the same handler: it must not fire
                    let t = rng.below(3) as u8;
                    let lo = rng.range(5, 40) as u64;
                    cmds.push(UCmd::SetTimer(t, lo, lo + 5));
                    cmds.push(UCmd::CancelTimer(t));
                }
                if rng.pct(15) {
                    // a Send that cannot be serialised, followed by ordinary Sends: the later
                    // ones must still go out
                    cmds.push(UCmd::Send(id_of(*rng.pick(&driver_ports)), UNSERIALISABLE_FROM + tag()));
                    for _ in 0..rng.range(1, 2) {
                        cmds.push(UCmd::Send(id_of(*rng.pick(&driver_ports)), tag()));
                    }
                }
                let m = UMsg { tag: tag(), cmds };
                log(json!({"t": now_us(), "who": "driver", "ev": "send", "from_port": driver_ports[sock_i], "from_id": id_of(driver_ports[sock_i]),
                           "to_actor": to, "tag": m.tag, "carried": m.cmds.len()}));
                let _ = sock.send_to(&ser(&m).unwrap(), to_addr);
            }
        }
        // receive whatever arrived
        drain(&driver_socks, &driver_ports);
        std::thread::sleep(Duration::from_millis(rng.range(0, 25) as u64));
    }
    // let pending timers fire and late datagrams arrive
    let until = Instant::now() + Duration::from_millis(350);
    let mut last_pass_started = now_us();
    while Instant::now() < until {
        last_pass_started = now_us();
        drain(&driver_socks, &driver_ports);
    }
    // "last_drain_started": everything an actor sent before this instant was either picked up
    // by that complete pass over all driver sockets (or an earlier one) or dropped by the kernel
    log(json!({"t": now_us(), "who": "driver", "ev": "end-of-observation", "last_drain_started": last_pass_started}));
    let events = LOG.get().unwrap().lock().unwrap().clone();
    println!("{}", json!({"actor_ports": ports, "actor_hosts": hosts, "driver_ports": driver_ports, "salt": salt, "run": run, "events": events}));
    0
}

fn drain(socks: &[UdpSocket], ports: &[u16]) {
    let mut buf = [0u8; 65_535];
    for (i, s) in socks.iter().enumerate() {
        while let Ok((n, from)) = s.recv_from(&mut buf) {
            let payload = String::from_utf8_lossy(&buf[..n]).to_string();
            let from_host = match from.ip() {
                std::net::IpAddr::V4(a) if a.octets()[..3] == [127, 0, 0] => a.octets()[3] as u64,
                _ => 0,
            };
            log(json!({"t": now_us(), "who": "driver", "ev": "recv", "at_port": ports[i], "from_port": from.port(), "from_host": from_host, "payload": payload}));
        }
    }
}

// -- offline trace checker ----------------------------------------------------------------------------

pub fn check_log(v: &Value) -> Result<BTreeMap<&'static str, u64>, (String, Value)> {
    let mut stats: BTreeMap<&'static str, u64> = BTreeMap::new();
    let events = v["events"].as_array().cloned().unwrap_or_default();
    let actor_ports: Vec<u64> = v["actor_ports"].as_array().unwrap().iter().map(|p| p.as_u64().unwrap()).collect();
    let driver_ports: Vec<u64> = v["driver_ports"].as_array().unwrap().iter().map(|p| p.as_u64().unwrap()).collect();
    let actor_hosts: Vec<u64> = match v["actor_hosts"].as_array() {
        Some(a) => a.iter().map(|p| p.as_u64().unwrap()).collect(),
        None => vec![1; actor_ports.len()],
    };
    let actor_ids: Vec<u64> = (0..actor_ports.len()).map(|i| id_at(actor_hosts[i] as u8, actor_ports[i] as u16)).collect();
    let id_to_actor: BTreeMap<u64, usize> = actor_ids.iter().enumerate().map(|(i, id)| (*id, i)).collect();
    let astray_tags: BTreeSet<u64> = events.iter().filter(|e| e["ev"] == "send-astray").filter_map(|e| e["tag"].as_u64()).collect();
    stats.insert("datagrams_sent_to_a_loopback_address_without_an_actor", astray_tags.len() as u64);
    stats.insert("actors_at_other_loopback_addresses_than_127.0.0.1", actor_hosts.iter().filter(|h| **h != 1).count() as u64);
    let driver_ids: BTreeSet<u64> = driver_ports.iter().map(|p| id_of(*p as u16)).collect();
    let fail = |what: &str, detail: Value| Err((what.to_string(), detail));
    // tags carry a per-process salt: a datagram with another salt strayed in from a scenario
    // running concurrently (port reuse, see udp_worker) and is not ours to judge
    let salt = v["salt"].as_u64().unwrap_or(0);
    // what was sent to each actor: tag -> (sender id, destination actor)
    let mut sent_to_actor: BTreeMap<u64, (u64, usize)> = BTreeMap::new();
    // what actors sent to driver sockets: tag -> (actor index, driver id)
    let mut sent_to_driver: BTreeMap<u64, (usize, u64, u64)> = BTreeMap::new(); // (actor, driver id, times commanded)
    // number of commands each driver datagram carried (the message the actor must be handed)
    let mut carried_by_tag: BTreeMap<u64, u64> = BTreeMap::new();
    for e in &events {
        if e["who"] == "driver" && e["ev"] == "send" {
            sent_to_actor.insert(e["tag"].as_u64().unwrap(), (e["from_id"].as_u64().unwrap(), e["to_actor"].as_u64().unwrap() as usize));
            carried_by_tag.insert(e["tag"].as_u64().unwrap(), e["carried"].as_u64().unwrap_or(0));
        }
        if e["who"] == "actor" {
            let me = e["actor"].as_u64().unwrap() as usize;
            for c in e["cmds"].as_array().unwrap() {
                if let Some(d) = c["send"].as_u64() {
                    let tag = c["tag"].as_u64().unwrap();
                    if tag % 1_000_000 >= UNSERIALISABLE_FROM as u64 {
                        continue; // cannot be serialised: nothing may (and nothing can) arrive
                    }
                    if let Some(a) = id_to_actor.get(&d) {
                        sent_to_actor.insert(tag, (actor_ids[me], *a));
                    } else if driver_ids.contains(&d) {
                        sent_to_driver.entry(tag).or_insert((me, d, 0)).2 += 1;
                    }
                }
            }
        }
    }
    // per actor: event sequence
    let mut started: BTreeMap<usize, u64> = BTreeMap::new();
    let mut last_state: BTreeMap<usize, u64> = BTreeMap::new();
    let mut delivered_tags: BTreeSet<u64> = BTreeSet::new();
    // timers: (actor, timer) -> Some((arm_time_us, lo_ms)) while armed
    let mut armed: BTreeMap<(usize, u64), Option<(u64, u64)>> = BTreeMap::new();
    for e in &events {
        if e["who"] != "actor" {
            continue;
        }
        let me = e["actor"].as_u64().unwrap() as usize;
        let t = e["t"].as_u64().unwrap();
        let ev = e["ev"].as_str().unwrap();
        if ev == "start" {
            if started.contains_key(&me) {
                return fail("on_start-ran-twice", e.clone());
            }
            if e["id"].as_u64() != Some(actor_ids[me]) {
                return fail("on_start-got-wrong-id", e.clone());
            }
            started.insert(me, t);
        } else {
            if !started.contains_key(&me) {
                return fail("handler-ran-before-on_start", e.clone());
            }
            *stats.entry("handler_invocations").or_default() += 1;
            if last_state.get(&me) != e["state_in"].as_u64().as_ref() {
                return fail("handler-did-not-receive-the-state-left-by-the-previous-one", json!({"event": e, "expected_state_in": last_state.get(&me)}));
            }
        }
        last_state.insert(me, e["state_out"].as_u64().unwrap());
        match ev {
            "msg" => {
                let tag = e["tag"].as_u64().unwrap();
                *stats.entry("messages_delivered").or_default() += 1;
                // traffic of a concurrently running scenario that strayed onto one of our ports
                // (see udp_worker) is not ours to judge
                if tag / 1_000_000 != salt {
                    // its commands (below) were executed by our actor all the same
                    *stats.entry("foreign_datagrams_ignored").or_default() += 1;
                } else {
                match sent_to_actor.get(&tag) {
                    None if astray_tags.contains(&tag) => return fail("on_msg-for-a-datagram-sent-to-another-ip-address-than-the-actor's", e.clone()),
                    None => return fail("on_msg-for-a-datagram-nobody-sent", e.clone()),
                    Some((from_id, to)) => {
                        if *to != me {
                            return fail("on_msg-at-an-actor-the-datagram-was-not-addressed-to", e.clone());
                        }
                        if e["src"].as_u64() != Some(*from_id) {
                            return fail("on_msg-src-id-is-not-derived-from-the-sender-address", json!({"event": e, "sender_id": from_id}));
                        }
                        if let Some(sent_cmds) = carried_by_tag.get(&tag) {
                            if e["carried"].as_u64() != Some(*sent_cmds) {
                                return fail("on_msg-got-a-different-message-than-the-datagram-carried", json!({"event": e, "commands_in_the_datagram_sent": sent_cmds}));
                            }
                        }
                    }
                }
                if !delivered_tags.insert(tag) {
                    return fail("datagram-delivered-to-on_msg-twice", e.clone());
                }
                }
            }
            "timeout" => {
                let timer = e["timer"].as_u64().unwrap();
                *stats.entry("timer_firings").or_default() += 1;
                match armed.get(&(me, timer)).cloned().flatten() {
                    None => return fail("timer-fired-while-not-armed", e.clone()),
                    Some((arm_t, lo_ms)) => {
                        if t < arm_t + lo_ms * 1000 {
                            return fail("timer-fired-earlier-than-the-lower-bound-of-its-latest-arming", json!({"event": e, "armed_at_us": arm_t, "lower_bound_ms": lo_ms}));
                        }
                    }
                }
                armed.insert((me, timer), None); // consumed by firing
            }
            _ => {}
        }
        // commands of this handler take effect after it returned: a timer is armed no earlier
        // than the handler's end (a slow handler must not eat into the timer's lower bound)
        let t_armed = e["t_end"].as_u64().unwrap_or(t);
        for c in e["cmds"].as_array().unwrap() {
            if let Some(timer) = c["set"].as_u64() {
                armed.insert((me, timer), Some((t_armed, c["lo_ms"].as_u64().unwrap())));
                *stats.entry("timer_armings").or_default() += 1;
            }
            if let Some(timer) = c["cancel"].as_u64() {
                armed.insert((me, timer), None);
                *stats.entry("timer_cancellations").or_default() += 1;
            }
        }
    }
    // what the driver received from actors
    let mut received: BTreeMap<u64, u64> = BTreeMap::new();
    for e in &events {
        if e["who"] == "driver" && e["ev"] == "recv" {
            let payload = e["payload"].as_str().unwrap_or("");
            if payload.split_once('/').and_then(|(r, _)| r.parse::<u64>().ok()).map(|r| Some(r) != v["run"].as_u64()).unwrap_or(false) {
                *stats.entry("foreign_datagrams_ignored").or_default() += 1;
                continue;
            }
            let Ok(m) = de(payload.as_bytes()) else {
                if !actor_ports.contains(&e["from_port"].as_u64().unwrap_or(0)) {
                    *stats.entry("foreign_datagrams_ignored").or_default() += 1;
                    continue;
                }
                return fail("actor-emitted-a-datagram-that-does-not-deserialise", e.clone());
            };
            if m.tag as u64 / 1_000_000 != salt {
                *stats.entry("foreign_datagrams_ignored").or_default() += 1;
                continue;
            }
            *stats.entry("datagrams_received_from_actors").or_default() += 1;
            match sent_to_driver.get(&(m.tag as u64)) {
                None => {
                    let related: Vec<&Value> = events.iter().filter(|x| x.to_string().contains(&m.tag.to_string())).collect();
                    return fail("datagram-received-that-no-actor-was-told-to-send", json!({"event": e, "events_mentioning_the_tag": related, "salt": salt,
                        "actor_ports": actor_ports, "driver_ports": driver_ports, "all_events": events}));
                }
                Some((actor, driver_id, _)) => {
                    if e["from_port"].as_u64() != Some(actor_ports[*actor]) || e["from_host"].as_u64().unwrap_or(actor_hosts[*actor]) != actor_hosts[*actor] {
                        return fail("datagram-came-from-another-socket-than-the-sending-actor", e.clone());
                    }
                    if id_of(e["at_port"].as_u64().unwrap() as u16) != *driver_id {
                        return fail("datagram-arrived-at-another-address-than-the-destination-id-encodes", e.clone());
                    }
                }
            }
            *received.entry(m.tag as u64).or_default() += 1;
            if received[&(m.tag as u64)] > sent_to_driver[&(m.tag as u64)].2 {
                return fail("send-emitted-more-than-one-datagram", e.clone());
            }
        }
    }
    // Sends that follow a failing Send in the same handler. Loopback UDP may lose a datagram,
    // so a missing one is normally only a bounded-progress miss - but if *every* Send that
    // follows a failing one in some handler is missing while not a single other commanded
    // datagram of the whole run is, the handler's remaining commands were dropped.
    let mut missed_elsewhere = 0u64;
    let mut handlers_cut_short: Vec<Value> = Vec::new();
    // Decided on logical order, not on elapsed time: the runtime executes all commands of a handler
    // before it invokes the next handler of the same actor, so a handler is judged only if the same
    // actor started a later handler before the driver's last complete pass over its sockets began -
    // then every Send of the judged handler had been attempted before that pass. (A fixed grace
    // period after the handler's end is not enough on a loaded machine: the runtime thread can be
    // descheduled between the handler's return and the execution of its commands.)
    let last_drain_started = events.iter().filter(|e| e["ev"] == "end-of-observation").filter_map(|e| e["last_drain_started"].as_u64()).max().unwrap_or(0);
    let mut handler_starts: BTreeMap<u64, BTreeSet<u64>> = BTreeMap::new();
    for e in &events {
        if e["who"] == "actor" {
            handler_starts.entry(e["actor"].as_u64().unwrap_or(0)).or_default().insert(e["t"].as_u64().unwrap_or(0));
        }
    }
    for e in &events {
        if e["who"] != "actor" {
            continue;
        }
        let this_start = e["t_end"].as_u64().unwrap_or(u64::MAX);
        let next_handler = handler_starts
            .get(&e["actor"].as_u64().unwrap_or(0))
            .and_then(|s| s.range(this_start.saturating_add(1)..).next().copied());
        if !matches!(next_handler, Some(t) if t < last_drain_started) {
            continue;
        }
        *stats.entry("handlers_judged_for_lost_sends(a_later_handler_of_the_actor_ran_before_the_last_drain)").or_default() += 1;
        let mut failed_before = false;
        let (mut after_fail, mut after_fail_missing) = (0u64, 0u64);
        for c in e["cmds"].as_array().unwrap() {
            let (Some(d), Some(tag)) = (c["send"].as_u64(), c["tag"].as_u64()) else { continue };
            if tag % 1_000_000 >= UNSERIALISABLE_FROM as u64 {
                failed_before = true;
                *stats.entry("unserialisable_sends_commanded").or_default() += 1;
                continue;
            }
            if !driver_ids.contains(&d) {
                continue;
            }
            let missing = received.get(&tag).copied().unwrap_or(0) == 0;
            if failed_before {
                after_fail += 1;
                after_fail_missing += missing as u64;
            } else if missing {
                missed_elsewhere += 1;
            }
        }
        *stats.entry("sends_following_a_failing_send").or_default() += after_fail;
        if after_fail > 0 && after_fail_missing == after_fail {
            handlers_cut_short.push(e.clone());
        } else {
            missed_elsewhere += after_fail_missing;
        }
    }
    if !handlers_cut_short.is_empty() && missed_elsewhere == 0 {
        return fail("sends-after-a-failing-send-are-lost", json!({"handlers": handlers_cut_short, "datagrams_missing_elsewhere_in_the_run": 0}));
    }
    stats.insert("actors_started", started.len() as u64);
    stats.insert("sends_to_driver_commanded", sent_to_driver.values().map(|v| v.2).sum());
    // only sends whose handler actually ran count as commanded
    Ok(stats)
}

fn scenario_case(case: &mut Case) {
    let seed = case.rng.next_u64() % 1_000_000_000;
    let out = run_worker(&["udp".to_string(), seed.to_string()], Duration::from_secs(30));
    let Some(line) = out.stdout.lines().rev().find(|l| l.starts_with('{')) else {
        case.inconclusive(&format!("worker produced no log (killed={} code={:?})", out.killed, out.exit_code));
        return;
    };
    let Ok(v) = serde_json::from_str::<Value>(line) else {
        case.inconclusive("worker log is not JSON");
        return;
    };
    if v.get("error").is_some() {
        case.inconclusive("worker could not allocate ports");
        return;
    }
    let n_events = v["events"].as_array().map(|a| a.len()).unwrap_or(0);
    case.add("events_logged", n_events as u64);
    case.sample(|| json!({"seed": seed, "first_events": v["events"].as_array().unwrap().iter().take(6).collect::<Vec<_>>()}));
    match check_log(&v) {
        Ok(stats) => {
            let started = stats.get("actors_started").copied().unwrap_or(0);
            let expected = v["actor_ports"].as_array().unwrap().len() as u64;
            for (k, n) in &stats {
                case.add(k, *n);
            }
            case.distinct(hash_of(&seed), stats.get("timer_firings").copied().unwrap_or(0) >= 1 && stats.get("messages_delivered").copied().unwrap_or(0) >= 3);
            if started < expected {
                case.inconclusive("not every actor started (port could not be bound?)");
            }
            let commanded = stats.get("sends_to_driver_commanded").copied().unwrap_or(0);
            let got = stats.get("datagrams_received_from_actors").copied().unwrap_or(0);
            if got < commanded {
                case.add("sends_not_observed_within_the_run(bounded progress)", commanded - got);
            }
        }
        Err((what, detail)) => {
            case.distinct(hash_of(&seed), true);
            case.violation(&format!("C17/udp/{}", what), json!({"seed": seed, "detail": detail}));
        }
    }
}

fn id_case(case: &mut Case) {
    let edge = case.rng.pct(20);
    let (ip, port) = if edge {
        (*case.rng.pick(&[0u32, 1, 0xFFFF_FFFF, 0x7F00_0001, 0x0100_0000, 0x00FF_00FF]), *case.rng.pick(&[0u16, 1, 255, 256, 65535, 32768]))
    } else {
        (case.rng.next_u64() as u32, case.rng.next_u64() as u16)
    };
    let addr = SocketAddrV4::new(Ipv4Addr::from(ip), port);
    let id = Id::from(addr);
    case.add("addresses_converted", 1);
    case.distinct(hash_of(&(ip, port)), true);
    case.sample(|| json!({"addr": addr.to_string(), "id": usize::from(id)}));
    if SocketAddrV4::from(id) != addr {
        case.violation("C17/id/address-to-id-to-address-is-not-the-identity", json!({"addr": addr.to_string(), "id": usize::from(id), "back": SocketAddrV4::from(id).to_string()}));
        return;
    }
    let raw = usize::from(id) as u64;
    if raw >> 48 != 0 || raw != ((ip as u64) << 16 | port as u64) {
        case.violation("C17/id/id-of-an-address-is-not-its-48-bit-encoding", json!({"addr": addr.to_string(), "id": raw}));
        return;
    }
    // every 48-bit id round-trips
    let any = case.rng.next_u64() & 0xFFFF_FFFF_FFFF;
    let id2 = Id::from(any as usize);
    if usize::from(Id::from(SocketAddrV4::from(id2))) as u64 != any {
        case.violation("C17/id/id-to-address-to-id-is-not-the-identity-on-48-bit-ids", json!({"id": any}));
        return;
    }
    // distinct ids give distinct addresses (bijection): flip one bit
    let other = any ^ (1 << case.rng.below(48));
    if SocketAddrV4::from(Id::from(other as usize)) == SocketAddrV4::from(id2) {
        case.violation("C17/id/two-48-bit-ids-map-to-the-same-address", json!({"a": any, "b": other}));
    }
}

pub fn run(ctx: &mut Ctx) {
    ctx.rule = "(udp) worker subprocesses call the real spawn() with 2-4 instrumented actors on 127.0.0.1:<free \
        ports>; a driver with 1-2 own sockets sends 15-40 scripted datagrams (each carrying commands for the \
        receiver: send to a driver socket or to another actor, set / re-arm / cancel one of three timers with \
        ranges 5-120 ms incl. degenerate a..a) plus garbage, undeserialisable and 40 kB datagrams; handlers and \
        driver append to one event log on a monotonic clock. Offline checks: on_start once and first; each on_msg \
        matches a datagram sent to that actor, with src = Id of the sender address, at most once; each datagram an \
        actor emits arrives once, from its socket, at the address its destination Id encodes; a timer fires only \
        while armed and not before arm time + lower bound of its latest arming; every handler sees the state the \
        previous one left (hash chain). (id) random and edge IPv4 addresses / 48-bit ids round-trip and are \
        bijective. Non-trivial: the run delivered >= 3 messages and fired >= 1 timer. Scripts also contain identical deadlines for two timers, slow handlers (Sleep), cancels from timeout handlers, set-then-cancel within one handler, unserialisable Sends followed by ordinary ones and 10-45 kB valid datagrams; timers count as armed from the END of the arming handler; every datagram carries a run id so that stray traffic of concurrent scenarios does not deserialise. A third of the scenarios place actors at 127.0.0.2-5 as well (sometimes two on one port number): the source address of every datagram is compared with the sender's Id, and well-formed datagrams sent to an actor's port at a loopback address without an actor must not be handed to anybody; garbage includes empty datagrams.".into();
    ctx.assumptions = vec![
        "loopback UDP may drop under load: datagrams that never arrive are bounded-progress misses (counted, not violations)".into(),
        "no upper bound on timer latency is asserted; the arm time used is the handler's start time, which is earlier than the real arming".into(),
        "random-choice scheduling of the runtime is observed but not judged (not in the statement)".into(),
    ];
    let ctx = &*ctx;
    ctx.cases("udp", ctx.n(64, 1600), 16, scenario_case);
    ctx.cases("id", ctx.n(100000, 3000000), 0, id_case);
}
