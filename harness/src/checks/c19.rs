//! C19 — Explorer, on-demand checking and the Path API agree with the model.

use crate::checks::c03::gen_props_all_kinds;
use crate::ctx::{guarded, hash_of, Case, Ctx};
use crate::graph::*;
use crate::rng::Rng;
use crate::worker::run_worker;
use serde_json::{json, Value};
use stateright::verif::{fingerprint_of, path_final_state, path_from_fingerprints};
use stateright::{Checker, Model, Path};
use std::collections::BTreeSet;
use std::io::{Read, Write};
use std::net::TcpStream;
use std::num::NonZeroU64;
use std::sync::{Arc, Mutex};
use std::time::{Duration, Instant};

fn gen_model(rng: &mut Rng, max_n: usize) -> (GraphModel, Reach) {
    // a third of the models are tree-shaped: there the eventually-verdicts are exact (see on_demand_case)
    let forest = rng.pct(33);
    let mut g = gen_graph(rng, &Knobs { max_n, allow_outside_inits: false, forest, ..Knobs::default() });
    let reach = g.reach();
    let k = rng.range(1, 4);
    gen_props_all_kinds(rng, &mut g, &reach, k);
    (GraphModel(Arc::new(g)), reach)
}

// -- (1) Path API round trips ---------------------------------------------------------------------

fn path_api_case(case: &mut Case) {
    let (model, reach) = gen_model(&mut case.rng, 24);
    case.sample(|| model.summary());
    // paths from a visitor
    let cfg = crate::runner::RunCfg { threads: 1, visitor: 1, ..Default::default() };
    // keep-alive so that everything is visited
    let out = crate::runner::run_checker(&model, *case.rng.pick(&[crate::runner::Strategy::Bfs, crate::runner::Strategy::Dfs]), &cfg, false);
    if !out.finished {
        case.inconclusive("checker did not finish");
        return;
    }
    let mut paths: Vec<PathVec> = out.visits.clone();
    paths.extend(out.discoveries.values().cloned());
    case.distinct(model.structural_hash(), paths.iter().any(|p| p.len() >= 3) && reach.count >= 3);
    for p in paths.iter().take(60) {
        case.add("paths_round_tripped", 1);
        let states: Vec<u32> = p.iter().map(|(s, _)| *s).collect();
        let actions: Vec<u16> = p.iter().filter_map(|(_, a)| *a).collect();
        let fps: Vec<u64> = states.iter().map(fingerprint_of).collect();
        let wit = || json!({"model": model.summary(), "states": states, "actions": actions});
        // from actions
        match Path::from_actions(&model, states[0], &actions) {
            None => {
                case.violation("C19/path/from_actions-rejects-a-real-execution", wit());
                return;
            }
            Some(q) => {
                if q.clone().into_vec() != *p {
                    case.violation("C19/path/from_actions-denotes-another-execution", json!({"case": wit(), "got": path_json(&q.into_vec())}));
                    return;
                }
                // encoded form
                let enc = q.encode();
                let expected: Vec<String> = fps.iter().map(|f| f.to_string()).collect();
                if enc != expected.join("/") {
                    case.violation("C19/path/encode-is-not-the-fingerprint-sequence-of-its-states", json!({"case": wit(), "encoded": enc}));
                    return;
                }
                if q.last_state() != states.last().unwrap() || q.clone().into_states() != states || q.into_actions() != actions {
                    case.violation("C19/path/accessors-disagree-with-into_vec", wit());
                    return;
                }
            }
        }
        // from fingerprints: the denoted state sequence must be the same (with parallel edges the
        // chosen action may differ, the states may not)
        match guarded(|| path_from_fingerprints(&model, &fps)) {
            Ok(Some(q)) => {
                let v = q.into_vec();
                if v.iter().map(|(s, _)| *s).collect::<Vec<_>>() != states || validate_path(&model, &v).is_err() {
                    case.violation("C19/path/from_fingerprints-denotes-another-execution", json!({"case": wit(), "got": path_json(&v)}));
                    return;
                }
            }
            Ok(None) => {}
            Err(msg) => {
                case.violation("C19/path/from_fingerprints-panics-on-a-real-execution", json!({"case": wit(), "panic": msg}));
                return;
            }
        }
        if path_final_state(&model, &fps) != states.last().copied() {
            case.violation("C19/path/final_state-disagrees-with-the-execution", wit());
            return;
        }
        // sequences that denote no execution
        if case.rng.pct(30) {
            let mut bad = fps.clone();
            let foreign = fingerprint_of(&(model.n as u32 + 7));
            let at = case.rng.below(bad.len());
            bad[at] = foreign;
            if path_final_state(&model, &bad).is_some() {
                case.violation("C19/path/final_state-resolves-a-sequence-that-denotes-no-execution", json!({"case": wit(), "position": at}));
                return;
            }
        }
        if actions.len() >= 1 && case.rng.pct(30) {
            // an action that is not enabled at its state
            let mut bad = actions.clone();
            let at = case.rng.below(bad.len());
            bad[at] = 999;
            if Path::from_actions(&model, states[0], &bad).is_some() {
                case.violation("C19/path/from_actions-accepts-an-action-that-is-not-enabled", wit());
                return;
            }
        }
    }
}

// -- (2b) requests while the on-demand checker runs to completion --------------------------------

/// `check_fingerprint` must stay a request, not a rendez-vous: while a long `run_to_completion`
/// is in progress, a burst of requests (for states that are not pending) must be accepted
/// without blocking the caller (the Explorer's single web thread is such a caller). The verdict
/// rests on the pattern "several calls returned at once, then one call stayed blocked until the
/// checker had finished", not on an absolute latency.
fn requests_during_completion_case(case: &mut Case) {
    let (d, w) = *case.rng.pick(&[(6usize, 2000usize), (5, 3000)]);
    let mut g = crate::graph::gen_graph(&mut case.rng, &crate::graph::Knobs { layered: Some((d, w)), ..crate::graph::Knobs::default() });
    // slow enough that the run lasts about two seconds whatever part of the graph is reachable
    let reachable = g.reach().count.max(1) as u64;
    g.spin_us = (2_000_000 / reachable).clamp(80, 20_000);
    g.labels.push(vec![true; g.n]);
    g.props.push((stateright::Expectation::Always, g.labels.len() - 1));
    let n = g.n;
    case.distinct(g.structural_hash(), true);
    let model = GraphModel(Arc::new(g));
    case.sample(|| model.summary());
    let threads = 1usize;
    let checker = model.clone().checker().threads(threads).spawn_on_demand();
    checker.run_to_completion();
    let calls = 60usize;
    let targets: Vec<u32> = (0..calls).map(|_| (n + 10 + case.rng.below(1000)) as u32).collect(); // never pending
    let returned: Arc<Mutex<Vec<Instant>>> = Arc::new(Mutex::new(Vec::new()));
    let t0 = Instant::now();
    let (done_at, finished_calls) = std::thread::scope(|scope| {
        let (checker, returned2, targets) = (&checker, returned.clone(), &targets);
        scope.spawn(move || {
            for s in targets {
                checker.check_fingerprint(NonZeroU64::new(fingerprint_of(s)).unwrap());
                returned2.lock().unwrap().push(Instant::now());
            }
        });
        // wait for the checker to finish (watchdog: inconclusive)
        let mut done_at = None;
        while t0.elapsed() < Duration::from_secs(60) {
            if checker.is_done() {
                done_at = Some(Instant::now());
                break;
            }
            std::thread::sleep(Duration::from_micros(300));
        }
        (done_at, ())
    });
    let _ = finished_calls;
    let Some(done_at) = done_at else {
        case.inconclusive("run_to_completion did not finish within 60 s");
        return;
    };
    case.add("bursts_during_run_to_completion", 1);
    let returned = returned.lock().unwrap().clone();
    let before_done: Vec<&Instant> = returned.iter().filter(|t| **t < done_at).collect();
    case.add("requests_accepted_while_running", before_done.len() as u64);
    if before_done.len() == calls {
        return; // every request was accepted while the run was still going on
    }
    let run_s = done_at.duration_since(t0).as_secs_f64();
    let last_quick = before_done.last().map(|t| done_at.duration_since(**t).as_secs_f64());
    match last_quick {
        Some(gap) if before_done.len() >= 5 && gap >= 0.5 => {
            case.violation(
                "C19/on_demand/check_fingerprint-blocks-while-running-to-completion",
                json!({"model": model.summary(), "threads": threads, "requests": calls, "accepted_at_once": before_done.len(),
                       "then_blocked_for_s_until_the_checker_finished": gap, "run_s": run_s}),
            );
        }
        _ => case.inconclusive(&format!("only {} of {} requests returned before the run ended after {:.2}s (run too short or caller starved)", before_done.len(), calls, run_s)),
    }
}

// -- (2) on-demand checker through the Checker API -----------------------------------------------

fn on_demand_case(case: &mut Case) {
    let (model, reach) = gen_model(&mut case.rng, 20);
    // keep-alive so that run_to_completion is exhaustive
    let model = {
        let mut g = GraphData::new(model.n);
        g.inits = model.inits.clone();
        g.out = model.out.clone();
        g.inb = model.inb.clone();
        g.labels = model.labels.clone();
        g.props = model.props.clone();
        g.labels.push(vec![true; g.n]);
        g.props.push((stateright::Expectation::Always, g.labels.len() - 1));
        GraphModel(Arc::new(g))
    };
    case.sample(|| model.summary());
    case.distinct(model.structural_hash(), reach.count >= 3);
    let threads = *case.rng.pick(&[1usize, 1, 2]);
    let log = VisitLog::default();
    let checker = model.clone().checker().threads(threads).visitor(log.clone()).spawn_on_demand();
    let wit = |extra: Value| json!({"model": model.summary(), "threads": threads, "detail": extra});
    let visited = || -> Vec<u32> { log.0.lock().unwrap().iter().map(|p| p.last().unwrap().0).collect() };
    let wait_for = |pred: &dyn Fn(&[u32]) -> bool, ms: u64| -> bool {
        let t = Instant::now();
        while t.elapsed() < Duration::from_millis(ms) {
            if pred(&visited()) {
                return true;
            }
            std::thread::sleep(Duration::from_micros(300));
        }
        pred(&visited())
    };
    // nothing is evaluated before a request
    std::thread::sleep(Duration::from_millis(3));
    if !visited().is_empty() {
        case.violation("C19/on_demand/evaluates-states-before-being-asked", wit(json!({"visited": visited()})));
        return;
    }
    if threads == 1 {
        // pending frontier known exactly with one worker: start with the initial states
        let mut pending: BTreeSet<u32> = model.inits.iter().copied().filter(|s| model.inb[*s as usize]).collect();
        let mut done: BTreeSet<u32> = BTreeSet::new();
        for _ in 0..case.rng.range(1, 6) {
            if case.rng.pct(25) {
                // a fingerprint that is not pending: nothing may be evaluated
                let foreign = if !done.is_empty() && case.rng.pct(50) {
                    *case.rng.pick(&done.iter().copied().collect::<Vec<_>>())
                } else {
                    model.n as u32 + 5
                };
                if !pending.contains(&foreign) {
                    let before = visited().len();
                    checker.check_fingerprint(NonZeroU64::new(fingerprint_of(&foreign)).unwrap());
                    std::thread::sleep(Duration::from_millis(15));
                    case.add("non_pending_requests", 1);
                    if visited().len() != before {
                        case.violation("C19/on_demand/request-for-a-non-pending-state-evaluates-something", wit(json!({"requested": foreign, "visited": visited()})));
                        return;
                    }
                }
                continue;
            }
            if pending.is_empty() {
                break;
            }
            let target = *case.rng.pick(&pending.iter().copied().collect::<Vec<_>>());
            let before = visited();
            checker.check_fingerprint(NonZeroU64::new(fingerprint_of(&target)).unwrap());
            case.add("pending_requests", 1);
            if !wait_for(&|v| v.len() > before.len(), 3000) {
                case.inconclusive("requested pending state was not evaluated within 3 s");
                return;
            }
            std::thread::sleep(Duration::from_millis(3));
            let after = visited();
            if after.len() != before.len() + 1 || *after.last().unwrap() != target {
                case.violation(
                    "C19/on_demand/request-evaluates-other-than-the-requested-pending-state",
                    wit(json!({"requested": target, "newly_evaluated": after[before.len()..].to_vec()})),
                );
                return;
            }
            pending.remove(&target);
            done.insert(target);
            // its in-boundary successors that were never generated become pending
            for t in model.in_boundary_successors(target) {
                if !done.contains(&t) && !pending.contains(&t) {
                    pending.insert(t);
                }
            }
            // once every property has a discovery the checker may stop; no further requests then
            if checker.discoveries().len() == model.props.len() {
                break;
            }
        }
    } else {
        for _ in 0..case.rng.below(4) {
            let s = case.rng.below(model.n) as u32;
            checker.check_fingerprint(NonZeroU64::new(fingerprint_of(&s)).unwrap());
        }
    }
    checker.run_to_completion();
    let t = Instant::now();
    while !checker.is_done() {
        if t.elapsed() > Duration::from_secs(30) {
            case.inconclusive("run_to_completion did not finish within 30 s");
            return;
        }
        std::thread::sleep(Duration::from_micros(300));
    }
    let checker = match crate::checks::c05::join_with_watchdog(checker, Duration::from_secs(30)) {
        crate::checks::c05::Joined::Returned(c, _) => c,
        crate::checks::c05::Joined::Panicked(msg, _) => {
            case.violation("C19/on_demand/join-panicked", wit(json!({"panic": msg})));
            return;
        }
        crate::checks::c05::Joined::Hung => {
            case.violation("C19/on_demand/join-does-not-return-after-run_to_completion-finished", wit(json!({})));
            return;
        }
    };
    case.add("run_to_completion_runs", 1);
    let v = visited();
    let mut seen = vec![0u32; model.n];
    for s in &v {
        seen[*s as usize] += 1;
    }
    for s in 0..model.n {
        if seen[s] != u32::from(reach.reachable[s]) {
            case.violation("C19/on_demand/run_to_completion-does-not-finish-like-bfs", wit(json!({"state": s, "evaluated_times": seen[s], "reachable": reach.reachable[s]})));
            return;
        }
    }
    // verdicts like BFS
    let bfs = crate::runner::run_checker(&model, crate::runner::Strategy::Bfs, &crate::runner::RunCfg { threads: 1, visitor: 0, ..Default::default() }, false);
    let names: BTreeSet<&str> = checker.discoveries().keys().copied().collect();
    let relevant = |names: &BTreeSet<&str>| -> BTreeSet<String> {
        names.iter().filter(|n| model.props[NAMES.iter().position(|m| m == *n).unwrap()].0 != stateright::Expectation::Eventually).map(|s| s.to_string()).collect()
    };
    let bfs_names: BTreeSet<&str> = bfs.discoveries.keys().copied().collect();
    if relevant(&names) != relevant(&bfs_names) || checker.unique_state_count() != bfs.unique || !checker.is_done() {
        case.violation("C19/on_demand/verdicts-or-counts-differ-from-bfs", wit(json!({"on_demand": names, "bfs": bfs_names, "unique": checker.unique_state_count(), "bfs_unique": bfs.unique})));
        return;
    }
    // Eventually-verdicts: never a counterexample where every maximal path satisfies the property,
    // and on a tree-shaped space (every state has one route) exactly the oracle's verdict - the
    // order in which the requests above made the checker evaluate states cannot matter there.
    let is_forest = model.is_forest(&reach);
    if is_forest {
        case.add("on_demand_runs_on_tree_shaped_spaces", 1);
    }
    for (idx, (kind, slot)) in model.props.iter().enumerate() {
        if *kind != stateright::Expectation::Eventually {
            continue;
        }
        let exists = model.eventually_counterexample_exists(&model.labels[*slot]);
        let reported = names.contains(NAMES[idx]);
        case.add("on_demand_eventually_verdicts_compared", 1);
        if reported && !exists {
            case.violation("C19/on_demand/eventually-counterexample-reported-where-none-exists", wit(json!({"property": NAMES[idx]})));
            return;
        }
        if is_forest && exists && !reported {
            case.violation("C19/on_demand/eventually-counterexample-missed-on-a-tree-shaped-space", wit(json!({"property": NAMES[idx]})));
            return;
        }
    }
    // The depth the checker reports must be the depth of something it evaluated: the longest
    // path it showed to the visitor (every checker numbers a state one deeper than the state it
    // was generated from, and the visitor is shown exactly that route).
    let longest = log.0.lock().unwrap().iter().map(|p| p.len()).max().unwrap_or(0);
    case.add("max_depth_compared_with_visitor_paths", 1);
    // (with several workers the maximum is maintained with a racy compare-exchange and may lag
    // behind; it must still never exceed the depth of anything evaluated)
    if (threads == 1 && checker.max_depth() != longest) || checker.max_depth() > longest {
        case.violation("C19/on_demand/max_depth-is-not-the-depth-of-the-deepest-evaluated-path", wit(json!({"max_depth": checker.max_depth(), "longest_path_shown_to_the_visitor": longest})));
    }
}

// -- (3) the Explorer over real HTTP ----------------------------------------------------------------

fn http(port: u16, method: &str, path: &str) -> Option<(u16, String)> {
    let mut s = TcpStream::connect(("127.0.0.1", port)).ok()?;
    s.set_read_timeout(Some(Duration::from_secs(10))).ok()?;
    write!(s, "{} {} HTTP/1.1\r\nHost: localhost\r\nConnection: close\r\nContent-Length: 0\r\n\r\n", method, path).ok()?;
    let mut buf = Vec::new();
    s.read_to_end(&mut buf).ok()?;
    let text = String::from_utf8_lossy(&buf).to_string();
    let (head, body) = text.split_once("\r\n\r\n")?;
    let code: u16 = head.split_whitespace().nth(1)?.parse().ok()?;
    let body = if head.to_ascii_lowercase().contains("transfer-encoding: chunked") {
        let mut out = String::new();
        let mut rest = body;
        loop {
            let Some((len, after)) = rest.split_once("\r\n") else { break };
            let n = usize::from_str_radix(len.trim(), 16).unwrap_or(0);
            if n == 0 || after.len() < n {
                break;
            }
            out.push_str(&after[..n]);
            rest = after[n..].trim_start_matches("\r\n");
        }
        out
    } else {
        body.to_string()
    };
    Some((code, body))
}

/// `svmon --worker explorer <seed>`: serves a generated model, exercises the HTTP API, prints a
/// JSON report `{"violations": [[signature, detail]...], "stats": {...}}`.
pub fn explorer_worker(args: &[String]) -> i32 {
    let seed: u64 = args[0].parse().unwrap();
    let mut rng = Rng::new(seed);
    let (model, reach) = gen_model(&mut rng, 16);
    // A port derived from the pid, below the ephemeral range: the kernel never hands it to a
    // bind(0) of another process, and concurrently running workers have different pids. (A port
    // probed with bind(0) and released is now and then grabbed by another scenario before serve()
    // binds it - the client then talks to a foreign server, and a foreign client to ours.)
    let own = 12_000 + (std::process::id() % 20_000) as u16;
    let port = match std::net::TcpListener::bind(("127.0.0.1", own)).and_then(|l| l.local_addr()) {
        Ok(a) => a.port(),
        Err(_) => match std::net::TcpListener::bind(("127.0.0.1", 0)).and_then(|l| l.local_addr()) {
            Ok(a) => a.port(),
            Err(_) => {
                println!("{}", json!({"error": "no free port"}));
                return 0;
            }
        },
    };
    let threads = *rng.pick(&[1usize, 2]);
    let m2 = model.clone();
    // `serve` blocks for as long as it serves; it only returns when it could not (the port,
    // probed free above and released, was taken by a concurrently running scenario in between).
    // Whoever answers on that port then is not our server, and nothing it says is judged.
    static SERVE_RETURNED: std::sync::atomic::AtomicBool = std::sync::atomic::AtomicBool::new(false);
    std::thread::spawn(move || {
        let _ = crate::ctx::guarded(|| m2.checker().threads(threads).serve(("127.0.0.1", port)));
        SERVE_RETURNED.store(true, std::sync::atomic::Ordering::SeqCst);
    });
    // wait for the server
    let t = Instant::now();
    loop {
        if http(port, "GET", "/.status").is_some() {
            break;
        }
        if t.elapsed() > Duration::from_secs(10) {
            println!("{}", json!({"error": "server did not come up"}));
            return 0;
        }
        std::thread::sleep(Duration::from_millis(10));
    }
    let mut violations: Vec<(String, Value)> = Vec::new();
    let mut stats = serde_json::Map::new();
    let mut bump = |k: &str| {
        let v = stats.get(k).and_then(|v| v.as_u64()).unwrap_or(0);
        stats.insert(k.to_string(), json!(v + 1));
    };
    let props = model.properties();
    let fp = |s: u32| fingerprint_of(&s);
    // expected views of the successors of `s`
    let expected_views = |s: u32| -> Vec<Value> {
        let mut actions = Vec::new();
        model.actions(&s, &mut actions);
        actions
            .into_iter()
            .map(|a| match model.next_state(&s, a) {
                Some(n) => json!({"action": model.format_action(&a), "outcome": format!("{:#?}", n), "state": format!("{:#?}", n), "fingerprint": fp(n).to_string()}),
                None => json!({"action": model.format_action(&a)}),
            })
            .collect()
    };
    let strip = |v: &Value| -> Value {
        // compare action/outcome/state/fingerprint only (properties and svg are not judged here)
        let mut m = serde_json::Map::new();
        for k in ["action", "outcome", "state", "fingerprint"] {
            if let Some(x) = v.get(k) {
                m.insert(k.to_string(), x.clone());
            }
        }
        Value::Object(m)
    };
    let mut last_unique = 0u64;
    let mut check_status = |violations: &mut Vec<(String, Value)>, expect_done: Option<bool>| -> Option<Value> {
        let (code, body) = http(port, "GET", "/.status")?;
        if code != 200 {
            violations.push(("C19/explorer/status-endpoint-not-200".into(), json!({"code": code})));
            return None;
        }
        let v: Value = serde_json::from_str(&body).ok()?;
        let unique = v["unique_state_count"].as_u64().unwrap_or(0);
        let total = v["state_count"].as_u64().unwrap_or(0);
        if unique < last_unique {
            violations.push(("C19/explorer/status-unique-count-decreases".into(), json!({"status": v})));
        }
        last_unique = unique;
        // (the two counters are read one after the other while workers may be running, so
        // state_count >= unique_state_count is only demanded of a status that reports `done`)
        let quiescent = v["done"].as_bool() == Some(true);
        if unique > reach.count as u64 || (quiescent && total < unique) {
            violations.push(("C19/explorer/status-counts-impossible-for-the-model".into(), json!({"status": v, "reachable": reach.count})));
        }
        let listed: Vec<String> = v["properties"].as_array().map(|a| a.iter().map(|p| p[1].as_str().unwrap_or("").to_string()).collect()).unwrap_or_default();
        if listed != props.iter().map(|p| p.name.to_string()).collect::<Vec<_>>() {
            violations.push(("C19/explorer/status-does-not-list-the-model-properties-in-order".into(), json!({"status": v})));
        }
        if let Some(d) = expect_done {
            if v["done"].as_bool() != Some(d) {
                violations.push(("C19/explorer/status-done-flag-wrong".into(), json!({"status": v, "expected": d})));
            }
        }
        Some(v)
    };
    let _ = check_status(&mut violations, None);
    // initial states
    for root in ["/.states", "/.states/"] {
        if let Some((code, body)) = http(port, "GET", root) {
            bump("requests");
            let got: Vec<Value> = serde_json::from_str::<Value>(&body).ok().and_then(|v| v.as_array().cloned()).unwrap_or_default();
            let expected: Vec<Value> = model.init_states().iter().map(|s| json!({"state": format!("{:#?}", s), "fingerprint": fp(*s).to_string()})).collect();
            if code != 200 || got.iter().map(&strip).collect::<Vec<_>>() != expected {
                violations.push(("C19/explorer/initial-states-view-differs-from-init_states".into(), json!({"code": code, "got": got, "expected": expected})));
            }
        }
    }
    // random walks over valid paths, with invalid mutations along the way
    let run_at = rng.below(12);
    let mut completed = false;
    for step in 0..14 {
        if step == run_at {
            if let Some((code, _)) = http(port, "POST", "/.runtocompletion") {
                bump("requests");
                if code != 200 {
                    violations.push(("C19/explorer/runtocompletion-not-200".into(), json!({"code": code})));
                }
                completed = true;
            }
        }
        if model.inits.is_empty() {
            break;
        }
        let mut s = *rng.pick(&model.inits);
        let mut path = vec![s];
        for _ in 0..rng.below(6) {
            let succ: Vec<u32> = model.out[s as usize].iter().filter_map(|e| *e).collect();
            if succ.is_empty() {
                break;
            }
            s = *rng.pick(&succ);
            path.push(s);
        }
        let url = format!("/.states/{}", path.iter().map(|x| fp(*x).to_string()).collect::<Vec<_>>().join("/"));
        if let Some((code, body)) = http(port, "GET", &url) {
            bump("requests");
            bump("valid_paths_requested");
            let got: Vec<Value> = serde_json::from_str::<Value>(&body).ok().and_then(|v| v.as_array().cloned()).unwrap_or_default();
            let expected = expected_views(s);
            if code != 200 {
                violations.push(("C19/explorer/valid-fingerprint-path-not-200".into(), json!({"path": path, "code": code, "body": body})));
            } else if got.iter().map(&strip).collect::<Vec<_>>() != expected {
                let what = if got.len() != expected.len() { "wrong-number-of-actions" } else { "action-successor-or-fingerprint-differs" };
                violations.push((format!("C19/explorer/states-view/{}", what), json!({"path": path, "got": got, "expected": expected})));
            }
        }
        // invalid variants
        let variant = rng.below(3);
        let bad_url = match variant {
            0 => format!("{}/{}", url, fingerprint_of(&(model.n as u32 + 3))), // valid prefix + foreign fingerprint
            1 => format!("{}/notanumber", url),
            _ => {
                // a real state that is not a successor of the last one
                let succ: BTreeSet<u32> = model.out[s as usize].iter().filter_map(|e| *e).collect();
                match (0..model.n as u32).find(|x| !succ.contains(x)) {
                    Some(x) => format!("{}/{}", url, fp(x)),
                    None => format!("{}/0", url),
                }
            }
        };
        if let Some((code, _)) = http(port, "GET", &bad_url) {
            bump("requests");
            bump("invalid_paths_requested");
            if code != 404 {
                violations.push(("C19/explorer/sequence-that-denotes-no-execution-not-404".into(), json!({"url": bad_url, "code": code, "variant": variant})));
            }
        }
        let _ = check_status(&mut violations, None);
    }
    if !completed {
        let _ = http(port, "POST", "/.runtocompletion");
    }
    // wait for done, then the final status must agree with the oracle
    let t = Instant::now();
    let mut fin = None;
    while t.elapsed() < Duration::from_secs(20) {
        if let Some((200, body)) = http(port, "GET", "/.status") {
            if let Ok(v) = serde_json::from_str::<Value>(&body) {
                if v["done"].as_bool() == Some(true) {
                    fin = Some(v);
                    break;
                }
            }
        }
        std::thread::sleep(Duration::from_millis(20));
    }
    match fin {
        None => {
            if SERVE_RETURNED.load(std::sync::atomic::Ordering::SeqCst) {
                println!("{}", json!({"error": "serve() returned: the port was taken by another process; the answers came from a foreign server"}));
                return 0;
            }
            println!("{}", json!({"inconclusive": "checker not done 20 s after runtocompletion", "violations": violations, "stats": stats}));
            return 0;
        }
        Some(v) => {
            bump("final_status_checked");
            let all_discovered = v["properties"].as_array().map(|a| a.iter().all(|p| !p[2].is_null())).unwrap_or(false);
            if !all_discovered && v["unique_state_count"].as_u64() != Some(reach.count as u64) {
                violations.push(("C19/explorer/final-status-unique-count-differs-from-reachable-set".into(), json!({"status": v, "reachable": reach.count})));
            }
            // per-property paths decode to genuine witnesses
            for (i, p) in v["properties"].as_array().cloned().unwrap_or_default().iter().enumerate() {
                if let Some(enc) = p[2].as_str() {
                    bump("discovery_paths_decoded");
                    let fps: Option<Vec<u64>> = enc.split('/').map(|x| x.parse::<u64>().ok()).collect();
                    let decoded = fps.and_then(|f| guarded(|| path_from_fingerprints(&model, &f)).ok().flatten());
                    match decoded {
                        None => violations.push(("C19/explorer/property-path-does-not-decode".into(), json!({"property": p}))),
                        Some(path) => {
                            let (kind, slot) = &model.props[i];
                            if let Err(reason) = validate_discovery(&model, kind, &model.labels[*slot], &path.into_vec(), false) {
                                violations.push((format!("C19/explorer/property-path-is-not-a-witness:{}", reason), json!({"property": p})));
                            }
                        }
                    }
                }
            }
        }
    }
    if SERVE_RETURNED.load(std::sync::atomic::Ordering::SeqCst) {
        println!("{}", json!({"error": "serve() returned: the port was taken by another process; the answers came from a foreign server"}));
        return 0;
    }
    println!("{}", json!({"violations": violations, "stats": stats, "model": model.summary(), "threads": threads}));
    0
}

fn explorer_case(case: &mut Case) {
    let seed = case.rng.next_u64() % 1_000_000_000;
    let out = run_worker(&["explorer".to_string(), seed.to_string()], Duration::from_secs(60));
    let Some(v) = crate::worker::last_json(&out) else {
        case.inconclusive(&format!("worker produced no report (killed={} code={:?})", out.killed, out.exit_code));
        return;
    };
    if let Some(e) = v.get("error") {
        case.inconclusive(&format!("worker: {}", e));
        return;
    }
    case.sample(|| json!({"seed": seed, "model": v["model"], "stats": v["stats"]}));
    case.distinct(hash_of(&seed), v["stats"]["valid_paths_requested"].as_u64().unwrap_or(0) >= 3);
    if let Some(stats) = v["stats"].as_object() {
        for (k, n) in stats {
            case.add(&format!("http_{}", k), n.as_u64().unwrap_or(0));
        }
    }
    if let Some(list) = v["violations"].as_array() {
        if let Some(first) = list.first() {
            case.violation(first[0].as_str().unwrap_or("C19/explorer/unknown"), json!({"seed": seed, "detail": first[1], "all": list.iter().map(|x| x[0].clone()).collect::<Vec<_>>()}));
            return;
        }
    }
    if let Some(reason) = v.get("inconclusive") {
        case.inconclusive(&format!("{}", reason));
    }
}

#[allow(dead_code)]
fn unused(_: Path<u32, u16>) {}

pub fn run(ctx: &mut Ctx) {
    ctx.rule = "(path) G1 models: every path shown to a visitor or returned as a discovery is rebuilt from its action \
        list, from its fingerprints and from its encoded form, and must denote the same state sequence; corrupted \
        sequences must be rejected. (on_demand) spawn_on_demand driven through the Checker API: nothing evaluated \
        before a request; with one worker the pending frontier is tracked exactly - a request for a pending state \
        evaluates exactly that state, a request for a non-pending one nothing; requests in random order, then \
        run_to_completion must evaluate exactly the reachable set once, give BFS's always/sometimes verdicts and counts, report an eventually-counterexample only where the \
        maximal-path oracle has one (and, on the tree-shaped third of the models, exactly there), and join \
        must return. (explorer) worker subprocesses run the real serve() on 127.0.0.1:<free port>; a minimal \
        HTTP/1.1 client walks random valid fingerprint paths (view must equal actions/next_state/format in order, \
        ignored actions included), mutates them into invalid ones (must be 404), polls /.status (monotone, \
        possible counts, property list), POSTs /.runtocompletion at a random point and finally decodes each \
        reported property path into a validated witness. Non-trivial: a path with >= 3 states / >= 3 reachable \
        states / >= 3 valid paths requested. (on_demand_requests_during_completion) a burst of 60 requests during a two-second run_to_completion must be accepted without blocking the caller.".into();
    ctx.assumptions = vec![
        "the browser UI (ui/app.js) is not exercised; the HTTP API it consumes is".into(),
        "recent_path, svg and the per-view property lists are not judged".into(),
    ];
    let ctx = &*ctx;
    ctx.cases("path_api", ctx.n(1500, 25000), 0, path_api_case);
    ctx.cases("on_demand_api", ctx.n(500, 8000), 0, on_demand_case);
    ctx.cases("on_demand_requests_during_completion", ctx.n(4, 40), 2, requests_during_completion_case);
    ctx.cases("explorer_http", ctx.n(24, 500), 6, explorer_case);
}
