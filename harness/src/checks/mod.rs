use crate::ctx::Ctx;

pub mod c01;

pub fn run(ctx: &mut Ctx) -> bool {
    match ctx.id.as_str() {
        "C01" => c01::run(ctx),
        _ => return false,
    }
    true
}

pub fn worker(_args: &[String]) -> i32 {
    64
}
