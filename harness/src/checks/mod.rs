use crate::ctx::Ctx;

pub mod c01;
pub mod c02;
pub mod c03;
pub mod c04;
pub mod c05;
pub mod c06;
pub mod c07;
pub mod c08;
pub mod c09;
pub mod c10;
pub mod c11;
pub mod c12;
pub mod c13;
pub mod c14;
pub mod c15;
pub mod c16;
pub mod c17;
pub mod c18;
pub mod c19;
pub mod c20;

pub fn run(ctx: &mut Ctx) -> bool {
    match ctx.id.as_str() {
        "C01" => c01::run(ctx),
        "C02" => c02::run(ctx),
        "C03" => c03::run(ctx),
        "C04" => c04::run(ctx),
        "C05" => c05::run(ctx),
        "C06" => c06::run(ctx),
        "C07" => c07::run(ctx),
        "C08" => c08::run(ctx),
        "C09" => c09::run(ctx),
        "C10" => c10::run(ctx),
        "C11" => c11::run(ctx),
        "C12" => c12::run(ctx),
        "C13" => c13::run(ctx),
        "C14" => c14::run(ctx),
        "C15" => c15::run(ctx),
        "C16" => c16::run(ctx),
        "C17" => c17::run(ctx),
        "C18" => c18::run(ctx),
        "C19" => c19::run(ctx),
        "C20" => c20::run(ctx),
        _ => return false,
    }
    true
}

pub fn worker(args: &[String]) -> i32 {
    match args.first().map(String::as_str) {
        Some("timeout") => c12::timeout_worker(&args[1..]),
        Some("udp") => c17::udp_worker(&args[1..]),
        Some("explorer") => c19::explorer_worker(&args[1..]),
        _ => 64,
    }
}

/// Entry point of the Miri lanes (`svmon --miri-lane <what>`).
pub fn miri_lane(what: &str) -> i32 {
    match what {
        "c05" => c05::miri_lane(),
        "c04" | "c08" | "c20" => smoke(what),
        _ => 64,
    }
}

/// UB smoke test of the pure data-structure code under Miri: a few hundred oracle comparisons of
/// the same monitors (declared as a smoke lane in the evidence; never a substitute for them).
fn smoke(what: &str) -> i32 {
    let id = what.to_uppercase();
    let mut ctx = Ctx::new(&id, crate::ctx::Tier::Quick, 11, None);
    ctx.verif_dir = std::env::temp_dir().join("svmon-miri-lane");
    {
        let ctx = &ctx;
        match what {
            "c04" => {
                ctx.cases("miri/containers", 60, 1, c04::containers_case);
                ctx.cases("miri/maps", 40, 1, c04::maps_case);
                ctx.cases("miri/networks", 40, 1, c04::network_case);
                ctx.cases("miri/misc", 20, 1, c04::misc_case);
            }
            "c08" => {
                ctx.cases("miri/register", 60, 1, |c| c08::random_case::<stateright::semantics::register::Register<char>>(c, 5));
                ctx.cases("miri/vec", 40, 1, |c| c08::random_case::<Vec<char>>(c, 5));
            }
            _ => {
                ctx.cases("miri/clocks", 200, 1, c20::clock_case);
                ctx.cases("miri/densenatmap", 100, 1, c20::dense_case);
            }
        }
    }
    let code = ctx.finish();
    if code == 0 {
        println!("{}", serde_json::json!({"miri_lane_ok": true}));
    } else {
        println!("{}", serde_json::json!({"violation": "see VIOLATION lines above"}));
    }
    code
}
