//! C11 — eventually-properties: never a false alarm, exact on tree-shaped state spaces.

use crate::ctx::{Case, Ctx};
use crate::graph::*;
use crate::runner::*;
use serde_json::json;
use stateright::Expectation;
use std::sync::Arc;

fn add_props(case: &mut Case, g: &mut GraphData, reach: &Reach) {
    let k = case.rng.range(1, 4);
    for _ in 0..k {
        let l = gen_labels(&mut case.rng, g, reach);
        g.labels.push(l);
        g.props.push((Expectation::Eventually, g.labels.len() - 1));
    }
    let others = case.rng.below(3);
    for _ in 0..others {
        let l = gen_labels(&mut case.rng, g, reach);
        g.labels.push(l);
        let kind = if case.rng.pct(50) { Expectation::Always } else { Expectation::Sometimes };
        g.props.push((kind, g.labels.len() - 1));
    }
    let mut props = std::mem::take(&mut g.props);
    case.rng.shuffle(&mut props);
    g.props = props;
}

fn judge(case: &Case, g: &GraphData, tag: &str, threads: usize, out: &RunOut, oracle: &[Option<bool>], exact: bool) {
    let desc = || json!({"model": g.summary(), "strategy": tag, "threads": threads});
    if !out.finished {
        case.inconclusive(&format!("{} did not finish within the watchdog", tag));
        return;
    }
    if !out.worker_panics.is_empty() {
        case.violation(&format!("C11/{}/worker-panicked", tag), json!({"run": desc(), "panics": out.worker_panics}));
        return;
    }
    // Which names were reported? (If `discoveries()` itself panics, that is C03's finding; the
    // names cannot be read then.)
    if out.discoveries_panic.is_some() {
        case.inconclusive(&format!("{}: discoveries() panicked (judged by C03)", tag));
        return;
    }
    for (idx, exists) in oracle.iter().enumerate() {
        let Some(exists) = exists else { continue };
        let reported = out.discoveries.contains_key(NAMES[idx]);
        case.add("eventually_verdicts_compared", 1);
        if reported && !*exists {
            case.violation(
                &format!("C11/{}/false-alarm", tag),
                json!({"run": desc(), "property": NAMES[idx], "path": path_json(&out.discoveries[NAMES[idx]])}),
            );
            return;
        }
        if exact && *exists && !reported {
            case.violation(
                &format!("C11/{}/missed-counterexample-on-forest", tag),
                json!({"run": desc(), "property": NAMES[idx]}),
            );
            return;
        }
        if *exists && !reported {
            case.add("documented_misses_on_non_forest", 1);
        }
    }
}

pub fn run(ctx: &mut Ctx) {
    ctx.rule = "G1 random graphs: general shape (joins, cycles, boundaries cutting some successors, ignored \
        actions, several eventually plus other properties) for the no-false-alarm half, forest shape (every \
        reachable state has exactly one path; verified by the oracle, not assumed) for exactness; BFS, DFS, \
        on-demand at threads {1,2,4} and simulation with several seeds. Oracle: maximal-path analysis (terminal \
        or cycle reachable while avoiding the condition). Non-trivial: >=2 reachable states and the oracle \
        verdicts of the eventually-properties are not all 'no counterexample' (general) / are mixed or positive \
        (forest)."
        .into();
    let ctx = &*ctx;
    let body = |case: &mut Case, forest: bool| {
        let mut g = gen_graph(&mut case.rng, &Knobs { forest, max_n: if forest { 30 } else { 24 }, ..Knobs::default() });
        let reach = g.reach();
        add_props(case, &mut g, &reach);
        let oracle: Vec<Option<bool>> = g
            .props
            .iter()
            .map(|(k, slot)| {
                if *k == Expectation::Eventually {
                    Some(g.eventually_counterexample_exists(&g.labels[*slot]))
                } else {
                    None
                }
            })
            .collect();
        let is_forest = g.is_forest(&reach);
        if forest && !is_forest {
            case.inconclusive("forest generator produced a non-forest (harness defect)");
            return;
        }
        let any_pos = oracle.iter().any(|o| *o == Some(true));
        let any_neg = oracle.iter().any(|o| *o == Some(false));
        case.distinct(g.structural_hash(), reach.count >= 2 && if forest { any_pos } else { any_neg || any_pos });
        if is_forest {
            case.add("models_that_are_forests", 1);
        }
        let model = GraphModel(Arc::new(g));
        case.sample(|| model.summary());
        // a depth limit cuts paths short; a cut is not the end of a maximal path, so the
        // no-false-alarm half must survive it (exactness is only judged on unlimited runs)
        let maxd = reach.dist.iter().filter(|d| **d != u32::MAX).max().copied().unwrap_or(0) as usize;
        for strategy in [Strategy::Bfs, Strategy::Dfs, Strategy::OnDemand] {
            let threads = *case.rng.pick(&[1usize, 1, 2, 4]);
            let target_max_depth = if case.rng.pct(25) { Some(case.rng.range(1, maxd + 2)) } else { None };
            let cfg = RunCfg { threads, visitor: 0, target_max_depth, ..RunCfg::default() };
            let out = run_checker(&model, strategy, &cfg, false);
            case.add(&format!("runs_{}", strategy.name()), 1);
            if target_max_depth.is_some() {
                case.add("runs_with_depth_limit", 1);
            }
            let tag = if target_max_depth.is_some() { format!("{}+depth-limit", strategy.name()) } else { strategy.name().to_string() };
            judge(case, &model, &tag, threads, &out, &oracle, is_forest && target_max_depth.is_none());
        }
        if model.inits.iter().any(|i| model.inb[*i as usize]) {
            for _ in 0..3 {
                let seed = case.rng.next_u64() % 1000;
                let cfg = RunCfg {
                    threads: *case.rng.pick(&[1usize, 2]),
                    visitor: 0,
                    target_state_count: Some(case.rng.range(5, 150)),
                    target_max_depth: if case.rng.pct(25) { Some(case.rng.range(2, maxd + 3)) } else { None },
                    watchdog: std::time::Duration::from_secs(20),
                    ..RunCfg::default()
                };
                let out = run_checker(&model, Strategy::Simulation(seed), &cfg, false);
                case.add("runs_simulation", 1);
                judge(case, &model, if cfg.target_max_depth.is_some() { "simulation+depth-limit" } else { "simulation" }, cfg.threads, &out, &oracle, false);
            }
        }
    };
    ctx.cases("general", ctx.n(2000, 40000), 0, |case| body(case, false));
    ctx.cases("forest", ctx.n(2000, 40000), 0, |case| body(case, true));
}
