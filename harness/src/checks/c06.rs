//! C06 — an actor-model transition is exactly one atomic handler step of one actor.
//!
//! Also hosts the lock-step differential engine shared with C07 and C09: the real `ActorModel`
//! and the reference semantics (O3) are walked together and compared at every state.

use crate::ctx::{Case, Ctx};
use crate::rng::Rng;
use crate::tables::*;
use serde_json::{json, Value};
use stateright::Model;
use std::collections::{BTreeSet, VecDeque};

pub fn act_kind(a: &RAct) -> &'static str {
    match a {
        RAct::Deliver(..) => "deliver",
        RAct::Drop(..) => "drop",
        RAct::Timeout(..) => "timeout",
        RAct::Crash(..) => "crash",
        RAct::Select(..) => "select-random",
    }
}

pub fn net_name(k: NetKind) -> &'static str {
    match k {
        NetKind::Ordered => "ordered",
        NetKind::NonDup => "unordered-nonduplicating",
        NetKind::Dup => "unordered-duplicating",
    }
}

fn differing_component(a: &RState, b: &RState) -> &'static str {
    if a.actors != b.actors {
        "actor-states"
    } else if a.net != b.net {
        "network"
    } else if a.timers != b.timers {
        "timers"
    } else if a.randoms != b.randoms {
        "random-choices"
    } else if a.crashed != b.crashed {
        "crash-flags"
    } else if a.history != b.history {
        "history"
    } else {
        "nothing"
    }
}

pub struct Lockstep<'a> {
    pub pid: &'a str,
    pub sys: &'a System,
    pub model: &'a TModel,
    pub reference: Reference<'a>,
    /// Also compare `len`, `iter_all` and `iter_deliverable` of the real network (C07).
    pub check_net_api: bool,
}

pub type RealTransition = (TAction, TModelState);

impl<'a> Lockstep<'a> {
    pub fn new(pid: &'a str, sys: &'a System, model: &'a TModel) -> Self {
        Lockstep { pid, sys, model, reference: Reference::new(sys), check_net_api: false }
    }

    fn sig(&self, what: &str) -> String {
        format!("{}/{}{}/{}", self.pid, net_name(self.sys.kind), if self.sys.lossy { "+lossy" } else { "" }, what)
    }

    fn witness(&self, trace: &[RAct], r: &RState, extra: Value) -> Value {
        json!({"system": self.sys.to_json(), "trace": trace.iter().map(|a| format!("{:?}", a)).collect::<Vec<_>>(),
               "reference_state": rstate_json(r), "detail": extra})
    }

    /// The initial state of both sides; `None` after reporting a violation.
    pub fn init(&self, case: &Case) -> Option<(TModelState, RState)> {
        let inits = self.model.init_states();
        let r = self.reference.init();
        if inits.len() != 1 {
            case.violation(&self.sig("init/not-exactly-one-initial-state"), self.witness(&[], &r, json!({"count": inits.len()})));
            return None;
        }
        let s = inits.into_iter().next().unwrap();
        let abs = abstract_state(&s);
        if abs != r {
            case.violation(
                &self.sig(&format!("init/start-up-differs-in-{}", differing_component(&abs, &r))),
                self.witness(&[], &r, json!({"real_state": rstate_json(&abs)})),
            );
            return None;
        }
        Some((s, r))
    }

    /// Compares everything observable at one state. Returns the real effective transitions.
    pub fn compare_at(&self, case: &Case, trace: &[RAct], s: &TModelState, r: &RState) -> Option<Vec<RealTransition>> {
        let abs = abstract_state(s);
        if &abs != r {
            case.violation(
                &self.sig(&format!("state-differs-in-{}", differing_component(&abs, r))),
                self.witness(trace, r, json!({"real_state": rstate_json(&abs)})),
            );
            return None;
        }
        if self.check_net_api {
            if let Err((what, detail)) = crate::checks::c07::net_api_agrees(&s.network, &r.net) {
                case.violation(&self.sig(&what), self.witness(trace, r, detail));
                return None;
            }
            case.add("network_api_comparisons", 1);
        }
        let mut actions = Vec::new();
        self.model.actions(s, &mut actions);
        case.add("actions_offered", actions.len() as u64);
        let mut real: Vec<(RAct, RState, usize)> = Vec::new();
        let mut real_full: Vec<RealTransition> = Vec::new();
        for a in actions {
            if let Some(next) = self.model.next_state(s, a.clone()) {
                real.push((abstract_action(&a), abstract_state(&next), real_full.len()));
                real_full.push((a, next));
            }
        }
        let expected = self.reference.transitions(r);
        case.add("steps_monitored", expected.len() as u64);
        let mut real_sorted: Vec<(RAct, RState)> = real.iter().map(|(a, n, _)| (a.clone(), n.clone())).collect();
        real_sorted.sort();
        if real_sorted != expected {
            // classify the first difference
            let real_acts: Vec<&RAct> = real_sorted.iter().map(|(a, _)| a).collect();
            let exp_acts: Vec<&RAct> = expected.iter().map(|(a, _)| a).collect();
            let (what, detail) = if let Some(a) = real_acts.iter().find(|a| count(&real_acts, a) > count(&exp_acts, a)) {
                (format!("{}/transition-not-allowed-by-reference", act_kind(a)), json!({"action": format!("{:?}", a)}))
            } else if let Some(a) = exp_acts.iter().find(|a| count(&exp_acts, a) > count(&real_acts, a)) {
                (format!("{}/transition-missing", act_kind(a)), json!({"action": format!("{:?}", a)}))
            } else {
                let (i, _) = real_sorted.iter().zip(expected.iter()).enumerate().find(|(_, (x, y))| x != y).map(|(i, p)| (i, p)).unwrap();
                let (a, rn) = &real_sorted[i];
                let (_, en) = &expected[i];
                (
                    format!("{}/successor-differs-in-{}", act_kind(a), differing_component(rn, en)),
                    json!({"action": format!("{:?}", a), "real_successor": rstate_json(rn), "reference_successor": rstate_json(en)}),
                )
            };
            case.violation(&self.sig(&what), self.witness(trace, r, detail));
            return None;
        }
        // next_steps must agree with actions + next_state
        let steps = self.model.next_steps(s);
        let mut steps_abs: Vec<(RAct, RState)> = steps.iter().map(|(a, n)| (abstract_action(a), abstract_state(n))).collect();
        steps_abs.sort();
        if steps_abs != expected {
            case.violation(&self.sig("next_steps-disagrees-with-actions-and-next_state"), self.witness(trace, r, json!({})));
            return None;
        }
        Some(real_full)
    }

    /// A seeded walk with a hostile scheduler (prefers timers, random selections, crashes and
    /// redeliveries over fresh deliveries).
    pub fn walk(&self, case: &Case, rng: &mut Rng, max_steps: usize) -> Option<(Vec<RAct>, BTreeSet<&'static str>)> {
        let (mut s, mut r) = self.init(case)?;
        let mut trace: Vec<RAct> = Vec::new();
        let mut kinds = BTreeSet::new();
        for _ in 0..max_steps {
            let transitions = self.compare_at(case, &trace, &s, &r)?;
            if transitions.is_empty() {
                break;
            }
            let weights: Vec<usize> = transitions
                .iter()
                .map(|(a, _)| match abstract_action(a) {
                    RAct::Timeout(..) => 4,
                    RAct::Select(..) => 4,
                    RAct::Crash(..) => 2,
                    RAct::Drop(..) => 2,
                    RAct::Deliver(s_, d, m) => {
                        if trace.iter().rev().take(3).any(|p| *p == RAct::Deliver(s_, d, m)) { 5 } else { 3 }
                    }
                })
                .collect();
            let total: usize = weights.iter().sum();
            let mut pick = rng.below(total);
            let mut idx = 0;
            for (i, w) in weights.iter().enumerate() {
                if pick < *w {
                    idx = i;
                    break;
                }
                pick -= w;
            }
            let (a, next) = transitions.into_iter().nth(idx).unwrap();
            let ra = abstract_action(&a);
            kinds.insert(act_kind(&ra));
            r = self.reference.step(&r, &ra).expect("compared equal above");
            s = next;
            trace.push(ra);
        }
        Some((trace, kinds))
    }

    /// Breadth-first prefix of the state space (at most `max_states` states), compared state by
    /// state. Returns the number of states compared.
    pub fn bfs_prefix(&self, case: &Case, max_states: usize) -> Option<usize> {
        let (s, r) = self.init(case)?;
        let mut seen: BTreeSet<RState> = BTreeSet::new();
        let mut q: VecDeque<(TModelState, RState, Vec<RAct>)> = VecDeque::new();
        seen.insert(r.clone());
        q.push_back((s, r, Vec::new()));
        let mut compared = 0;
        while let Some((s, r, trace)) = q.pop_front() {
            if compared >= max_states {
                break;
            }
            compared += 1;
            let transitions = self.compare_at(case, &trace, &s, &r)?;
            for (a, next) in transitions {
                let ra = abstract_action(&a);
                let rn = self.reference.step(&r, &ra).expect("compared equal above");
                if trace.len() < 12 && seen.insert(rn.clone()) {
                    let mut t = trace.clone();
                    t.push(ra);
                    q.push_back((next, rn, t));
                }
            }
        }
        Some(compared)
    }
}

fn count(v: &[&RAct], a: &RAct) -> usize {
    v.iter().filter(|x| **x == a).count()
}

pub fn lockstep_case(case: &mut Case, pid: &str, knobs: &SysKnobs, walks: usize, steps: usize, prefix: usize) {
    let sys = gen_system(&mut case.rng, knobs);
    let model = sys.model();
    let ls = Lockstep::new(pid, &sys, &model);
    case.sample(|| sys.to_json());
    let mut kinds: BTreeSet<&'static str> = BTreeSet::new();
    let mut total_steps = 0;
    let compared = match ls.bfs_prefix(case, prefix) {
        Some(c) => c,
        None => {
            case.distinct(sys.structural_hash(), true);
            return;
        }
    };
    case.add("states_compared", compared as u64);
    for _ in 0..walks {
        let mut rng = case.rng.fork();
        match ls.walk(case, &mut rng, steps) {
            Some((trace, k)) => {
                total_steps += trace.len();
                kinds.extend(k);
            }
            None => break,
        }
    }
    for k in &kinds {
        case.add(&format!("walk_steps_kind_{}", k), 1);
    }
    case.add(&format!("systems_{}", net_name(sys.kind)), 1);
    // non-trivial: several kinds of steps were actually taken
    case.distinct(sys.structural_hash(), kinds.len() >= 2 && total_steps >= 5);
}

pub fn run(ctx: &mut Ctx) {
    ctx.rule = "G2 table-driven actor systems (1-3 actors; 1-3 phases, messages, timers, random keys; handlers that \
        are no-ops, send several / identical messages / to a non-existent actor, combine timers, random choices \
        and sends, cancel, overwrite or merely re-arm) on all three network kinds x lossy x crash budget x \
        optional history hooks. Per system: a breadth-first prefix (<= 150 states) plus hostile random walks; at \
        every state the multiset of effective (action, successor) pairs of the real ActorModel and next_steps are \
        compared with the reference semantics in every component (actor states, network, timers, random choices, \
        crash flags, history). Non-trivial: the walks took >= 5 steps of >= 2 different kinds; distinct by hash \
        of the generated system."
        .into();
    ctx.assumptions = vec![
        "the reference interpreter (tables.rs) is the executable reading of the property text; it shares only the reaction tables with the code under test".into(),
        "actions that are offered but yield no successor are not compared, only effective transitions".into(),
    ];
    let ctx = &*ctx;
    let knobs = SysKnobs::default();
    ctx.cases("lockstep", ctx.n(2500, 40000), 0, |case| {
        lockstep_case(case, "C06", &knobs, 4, 60, 150);
    });
    let four = SysKnobs { max_actors: 4, ..SysKnobs::default() };
    ctx.cases("lockstep_four_actors", ctx.n(600, 10000), 0, |case| {
        lockstep_case(case, "C06", &four, 3, 80, 100);
    });
}
