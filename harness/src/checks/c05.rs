//! C05 — parallel checking is schedule-independent, loses no work and always terminates.
//!
//! Monitors: (1) boundary: visited multiset and verdicts of multi-threaded runs vs the oracle
//! and the single-threaded run; (2) O7: a sequential specification of the job market checked
//! over the event log the market emits under its own lock; (3) termination: the real `join`
//! runs on a helper thread under a watchdog with hang diagnosis from market snapshots;
//! (4) stop reasons: finish condition, target, model panic. Schedules are diversified by the
//! perturbation hooks (yield points), tiny block sizes and thread counts up to 32.

use crate::checks::c01::add_props_with_keepalive;
use crate::ctx::{guarded, Case, Ctx};
use crate::graph::*;
use crate::rng::{mix, Rng};
use serde_json::{json, Value};
use stateright::verif::{self, MarketEvent, MarketEventKind as K};
use stateright::{Checker, CheckerBuilder, Expectation, HasDiscoveries, Model};
use std::collections::{BTreeMap, BTreeSet, HashMap};
use std::sync::atomic::{AtomicU64, Ordering};
use std::sync::mpsc::RecvTimeoutError;
use std::sync::{Arc, Mutex, OnceLock};
use std::time::{Duration, Instant};

// ---------------------------------------------------------------------------------------------
// Event log (global sink; events are grouped per market).

type Log = Mutex<HashMap<usize, Vec<(u64, K)>>>;
static LOG: OnceLock<Log> = OnceLock::new();
static NEW_BY_THREAD: OnceLock<Mutex<HashMap<u64, usize>>> = OnceLock::new();
static EVENT_COUNT: AtomicU64 = AtomicU64::new(0);

/// The hook identifies a market by the address of its shared state, and a new market may reuse
/// the address of a dead one - possibly while the case that owned the dead one has not collected
/// its log yet. Logs are therefore kept under a *unique id* given out at each `New` event:
/// `ADDR_TO_UID[address]` is the market currently living at that address (all events of a market
/// precede the `New` of its successor at the same address, because a market's last broker emits
/// its `Drop` event before the memory is released).
static ADDR_TO_UID: OnceLock<Mutex<HashMap<usize, usize>>> = OnceLock::new();
static UID_TO_ADDR: OnceLock<Mutex<HashMap<usize, usize>>> = OnceLock::new();
static NEXT_UID: AtomicU64 = AtomicU64::new(1);

pub fn install_sink() {
    LOG.get_or_init(|| Mutex::new(HashMap::new()));
    NEW_BY_THREAD.get_or_init(|| Mutex::new(HashMap::new()));
    ADDR_TO_UID.get_or_init(|| Mutex::new(HashMap::new()));
    UID_TO_ADDR.get_or_init(|| Mutex::new(HashMap::new()));
    verif::set_sink(Some(Arc::new(|e: MarketEvent| {
        EVENT_COUNT.fetch_add(1, Ordering::Relaxed);
        let uid = if let K::New { .. } = e.kind {
            let uid = NEXT_UID.fetch_add(1, Ordering::Relaxed) as usize;
            ADDR_TO_UID.get().unwrap().lock().unwrap().insert(e.market, uid);
            UID_TO_ADDR.get().unwrap().lock().unwrap().insert(uid, e.market);
            NEW_BY_THREAD.get().unwrap().lock().unwrap().insert(e.thread, uid);
            uid
        } else {
            ADDR_TO_UID.get().unwrap().lock().unwrap().get(&e.market).copied().unwrap_or(0)
        };
        LOG.get().unwrap().lock().unwrap().entry(uid).or_default().push((e.thread, e.kind));
    })));
}

/// The address the hook knows this market by (for snapshots).
fn addr_of(market: usize) -> Option<usize> {
    UID_TO_ADDR.get()?.lock().unwrap().get(&market).copied()
}

/// The market most recently created by the calling thread.
pub fn my_market() -> Option<usize> {
    NEW_BY_THREAD.get()?.lock().unwrap().get(&verif::thread_no()).copied()
}

pub fn take_events(market: usize) -> Vec<(u64, K)> {
    if let Some(m) = UID_TO_ADDR.get() {
        m.lock().unwrap().remove(&market);
    }
    LOG.get().unwrap().lock().unwrap().remove(&market).unwrap_or_default()
}

/// Number of threads that emitted `PopWait` and no `PopWoke` since.
pub fn parked_workers(market: usize) -> usize {
    let log = LOG.get().unwrap().lock().unwrap();
    let mut waiting = BTreeSet::new();
    if let Some(events) = log.get(&market) {
        for (t, k) in events {
            match k {
                K::PopWait { .. } => {
                    waiting.insert(*t);
                }
                K::PopWoke { .. } => {
                    waiting.remove(t);
                }
                _ => {}
            }
        }
    }
    waiting.len()
}

/// Number of events this market has logged so far (not yet taken).
pub fn market_event_count(market: usize) -> u64 {
    LOG.get().unwrap().lock().unwrap().get(&market).map(|v| v.len() as u64).unwrap_or(0)
}

pub fn peek_events(market: usize, last: usize) -> Vec<String> {
    let log = LOG.get().unwrap().lock().unwrap();
    log.get(&market)
        .map(|v| v.iter().rev().take(last).rev().map(|(t, k)| format!("t{} {:?}", t, k)).collect())
        .unwrap_or_default()
}

// ---------------------------------------------------------------------------------------------
// O7: sequential specification of the job market.

#[derive(Default, Debug)]
pub struct MarketStats {
    pub pushes: u64,
    pub pops: u64,
    pub waits: u64,
    pub wakes: u64,
    pub splits_sharing: u64,
    pub splits_not_sharing: u64,
    pub batches_shared: u64,
    pub close_by_last: u64,
    pub drops: u64,
    pub discarded_batches: u64,
    pub pops_after_close: u64,
    pub timeout_ticks: u64,
}

/// Checks the event sequence of one market. `complete` = every broker clone is gone (the
/// checker was dropped), so the end-of-life conditions can be judged.
pub fn check_market_trace(events: &[(u64, K)], complete: bool) -> Result<MarketStats, String> {
    let mut st = MarketStats::default();
    let mut open = true;
    let mut thread_count = 0usize;
    let mut open_count = 0usize;
    let mut batches: Vec<usize> = Vec::new();
    let mut waiting: BTreeSet<u64> = BTreeSet::new();
    let mut started = false;
    for (i, (t, k)) in events.iter().enumerate() {
        let fail = |what: &str| Err(format!("event #{} (t{} {:?}): {}", i, t, k, what));
        if !started {
            match k {
                K::New { thread_count: n, .. } => {
                    thread_count = *n;
                    open_count = *n;
                    started = true;
                    continue;
                }
                _ => return fail("market-used-before-creation"),
            }
        }
        if waiting.contains(t) && !matches!(k, K::PopWoke { .. }) {
            return fail("thread-acts-while-parked-in-pop");
        }
        match k {
            K::New { .. } => return fail("market-created-twice"),
            K::Push { len } => {
                if !open {
                    return fail("push-accepted-on-closed-market");
                }
                batches.push(*len);
                st.pushes += 1;
            }
            K::PushClosed { .. } => {
                if open {
                    return fail("push-refused-on-open-market");
                }
            }
            K::PopClosed => {
                if open {
                    return fail("pop-returned-empty-on-open-market");
                }
            }
            K::PopGot { len, remaining } => {
                match batches.pop() {
                    None => return fail("batch-handed-out-that-was-never-pushed"),
                    Some(expected) => {
                        if expected != *len {
                            return fail("handed-out-batch-differs-from-pushed-batch");
                        }
                    }
                }
                if *remaining != batches.len() {
                    return fail("market-contents-disagree-with-history");
                }
                if !open {
                    st.pops_after_close += 1;
                }
                st.pops += 1;
            }
            K::PopCloseLast => {
                if !batches.is_empty() {
                    return fail("market-closed-by-last-worker-while-batches-pending");
                }
                if open_count != 1 {
                    return fail("market-closed-as-last-worker-while-others-active");
                }
                open_count = 0;
                open = false;
                st.close_by_last += 1;
            }
            K::PopWait { open_count: oc } => {
                if !batches.is_empty() {
                    return fail("worker-parks-while-a-batch-is-available");
                }
                if open_count == 0 {
                    return fail("active-worker-count-underflow");
                }
                open_count -= 1;
                if *oc != open_count || open_count == 0 {
                    return fail("active-worker-count-disagrees-with-history");
                }
                waiting.insert(*t);
                st.waits += 1;
            }
            K::PopWoke { open_count: oc, .. } => {
                if !waiting.remove(t) {
                    return fail("wake-without-wait");
                }
                open_count += 1;
                if *oc != open_count {
                    return fail("active-worker-count-disagrees-with-history");
                }
                st.wakes += 1;
            }
            K::SplitClosed { .. } => {
                if open {
                    return fail("work-discarded-by-split-on-open-market");
                }
            }
            K::Split { before, shared, kept, .. } => {
                if !open {
                    return fail("work-shared-on-closed-market");
                }
                let total: usize = shared.iter().sum::<usize>() + kept;
                if total != *before {
                    return fail("split-loses-or-duplicates-jobs");
                }
                if shared.iter().any(|l| *l == 0) {
                    return fail("empty-batch-shared");
                }
                for l in shared {
                    batches.push(*l);
                }
                if shared.is_empty() {
                    st.splits_not_sharing += 1;
                } else {
                    st.splits_sharing += 1;
                    st.batches_shared += shared.len() as u64;
                }
            }
            K::Drop { was_open, discarded, open_count: oc } => {
                if *was_open != open {
                    return fail("open-flag-disagrees-with-history");
                }
                if *discarded != batches {
                    return fail("discarded-batches-disagree-with-history");
                }
                st.discarded_batches += batches.len() as u64;
                batches.clear();
                open = false;
                open_count = open_count.saturating_sub(1);
                if *oc != open_count {
                    return fail("active-worker-count-disagrees-with-history");
                }
                st.drops += 1;
            }
            K::TimeoutTick { expired, open: o } => {
                if *expired {
                    open = false;
                }
                if *o != open {
                    return fail("open-flag-disagrees-with-history");
                }
                st.timeout_ticks += 1;
            }
        }
    }
    if complete {
        if !waiting.is_empty() {
            return Err(format!("end: {} worker(s) still parked in pop after everything ended", waiting.len()));
        }
        if open {
            return Err("end: market still open after every broker was dropped".into());
        }
        if !batches.is_empty() {
            return Err("end: batches left in the market after every broker was dropped".into());
        }
        let _ = thread_count;
    }
    Ok(st)
}

/// Hash of the thread-normalised event sequence (threads renamed by first appearance).
pub fn interleaving_hash(events: &[(u64, K)]) -> u64 {
    let mut names: HashMap<u64, u64> = HashMap::new();
    let mut words = Vec::with_capacity(events.len() * 2);
    for (t, k) in events {
        let n = names.len() as u64;
        let id = *names.entry(*t).or_insert(n);
        words.push(id);
        words.push(crate::ctx::hash_of(k));
    }
    mix(&words)
}

// ---------------------------------------------------------------------------------------------
// Perturbation profiles (process-wide, so phases run one after another).

static PROFILE: AtomicU64 = AtomicU64::new(0);
static PROFILE_SEED: AtomicU64 = AtomicU64::new(0);
static PERTURB_COUNT: AtomicU64 = AtomicU64::new(0);
thread_local!(static LOCAL_COUNTER: std::cell::Cell<u64> = const { std::cell::Cell::new(0) });

pub const PROFILES: [&str; 7] = ["none", "yield", "spin", "sleep", "slow-one-worker", "slow-sharer", "slow-wakeup"];

/// Traces finished per simulation worker thread (counted at the hook after each trace): the
/// logical clock of a simulation worker, also when its traces evaluate nothing any more.
static TRACES_BY_THREAD: OnceLock<Mutex<HashMap<std::thread::ThreadId, u64>>> = OnceLock::new();

pub fn traces_of(thread: std::thread::ThreadId) -> u64 {
    TRACES_BY_THREAD.get().and_then(|m| m.lock().unwrap().get(&thread).copied()).unwrap_or(0)
}

pub fn install_perturber() {
    TRACES_BY_THREAD.get_or_init(|| Mutex::new(HashMap::new()));
    verif::set_perturber(Some(Arc::new(|site: &'static str| {
        if site == "simulation:after_trace" {
            *TRACES_BY_THREAD.get().unwrap().lock().unwrap().entry(std::thread::current().id()).or_default() += 1;
        }
        let profile = PROFILE.load(Ordering::Relaxed);
        if profile == 0 {
            return;
        }
        let c = LOCAL_COUNTER.with(|c| {
            let v = c.get();
            c.set(v + 1);
            v
        });
        let t = verif::thread_no();
        let h = mix(&[PROFILE_SEED.load(Ordering::Relaxed), t, c]);
        PERTURB_COUNT.fetch_add(1, Ordering::Relaxed);
        match profile {
            1 => {
                if h % 2 == 0 {
                    std::thread::yield_now();
                }
            }
            2 => {
                if h % 2 == 0 {
                    spin(1 + (h >> 8) % 50);
                }
            }
            3 => {
                if h % 5 == 0 {
                    std::thread::sleep(Duration::from_micros(100 + (h >> 8) % 1900));
                }
            }
            4 => {
                if t % 3 == 0 {
                    std::thread::sleep(Duration::from_micros(300));
                }
            }
            5 => {
                if site == "market:split:before_lock" {
                    std::thread::sleep(Duration::from_micros(500 + (h >> 8) % 1000));
                }
            }
            _ => {
                if site == "market:pop:before_lock" || site == "market:drop:before_lock" {
                    std::thread::sleep(Duration::from_micros(200 + (h >> 8) % 800));
                }
            }
        }
    })));
}

pub fn set_profile(profile: usize, seed: u64) {
    PROFILE_SEED.store(seed, Ordering::SeqCst);
    PROFILE.store(profile as u64, Ordering::SeqCst);
}

// ---------------------------------------------------------------------------------------------
// Running the real `join` under a watchdog.

pub enum Joined<C> {
    Returned(C, Duration),
    Panicked(String, Duration),
    Hung,
}

pub fn join_with_watchdog<C>(checker: C, limit: Duration) -> Joined<C>
where
    C: Checker<GraphModel> + Send + 'static,
{
    let (tx, rx) = std::sync::mpsc::channel();
    let start = Instant::now();
    std::thread::Builder::new()
        .name("join-helper".into())
        .spawn(move || {
            let r = guarded(move || checker.join());
            let _ = tx.send(r);
        })
        .unwrap();
    match rx.recv_timeout(limit) {
        Ok(Ok(c)) => Joined::Returned(c, start.elapsed()),
        Ok(Err(msg)) => Joined::Panicked(msg, start.elapsed()),
        Err(RecvTimeoutError::Timeout) | Err(RecvTimeoutError::Disconnected) => Joined::Hung,
    }
}

/// Samples the market three times one second apart. A *stable* picture of parked workers while
/// a batch is available or the market is closed (or all workers parked) is a diagnosed hang;
/// anything else is still making progress (inconclusive).
pub fn diagnose_hang(market: Option<usize>) -> (Option<String>, Value) {
    let mut pictures = Vec::new();
    let mut counts = Vec::new();
    for _ in 0..3 {
        let snap = market.and_then(addr_of).and_then(|m| verif::market_snapshots().into_iter().find(|(id, _)| *id == m).map(|(_, s)| s));
        pictures.push(format!("{:?}", snap));
        // silence of *this* market (other cases running in parallel keep the global counter busy)
        counts.push(market.map(market_event_count).unwrap_or_else(|| EVENT_COUNT.load(Ordering::Relaxed)));
        std::thread::sleep(Duration::from_secs(1));
    }
    // stable = the picture does not change AND the market emits no events at all
    let stable = pictures.windows(2).all(|w| w[0] == w[1]) && counts.windows(2).all(|w| w[0] == w[1]);
    let evidence = json!({"snapshots": pictures, "last_events": market.map(|m| peek_events(m, 12))});
    if !stable {
        return (None, evidence);
    }
    let snap = market.and_then(addr_of).and_then(|m| verif::market_snapshots().into_iter().find(|(id, _)| *id == m).map(|(_, s)| s));
    let class = match snap {
        Some(Ok(s)) => {
            // workers parked in `pop` according to the event log (waits without a wake-up)
            let parked = market.map(parked_workers).unwrap_or(0);
            if parked > 0 && !s.batch_lens.is_empty() {
                "worker-parked-while-batch-available"
            } else if parked > 0 && !s.open {
                "worker-parked-on-closed-market"
            } else if s.open_count == 0 && s.open {
                "all-workers-parked-market-open"
            } else if !s.open {
                "join-blocked-although-market-closed"
            } else {
                "join-blocked-market-quiescent"
            }
        }
        Some(Err(_)) => "market-lock-never-released",
        None => "join-blocked-no-market",
    };
    (Some(class.to_string()), evidence)
}

// ---------------------------------------------------------------------------------------------
// Scenarios.

#[derive(Clone, Copy, Debug, PartialEq)]
enum Strat {
    Bfs,
    Dfs,
    OnDemand,
}

impl Strat {
    fn name(&self) -> &'static str {
        match self {
            Strat::Bfs => "bfs",
            Strat::Dfs => "dfs",
            Strat::OnDemand => "on_demand",
        }
    }
}

struct Scenario {
    threads: usize,
    finish_when: Option<HasDiscoveries>,
    target: Option<usize>,
}

struct Observed {
    visited: Vec<u32>,
    discoveries: BTreeSet<&'static str>,
    unique: usize,
    is_done: bool,
    join_time: Duration,
    market: Option<usize>,
}

enum Outcome {
    Done(Observed),
    Panicked(String, Option<usize>),
    Hung(Option<usize>),
}

fn spawn_and_join(model: &GraphModel, strat: Strat, sc: &Scenario, limit: Duration, extra_requests: Option<&mut Rng>) -> Outcome {
    let slog = StateLog::default();
    let mut b: CheckerBuilder<GraphModel> = model.clone().checker().threads(sc.threads).visitor(slog.clone());
    if let Some(f) = &sc.finish_when {
        b = b.finish_when(f.clone());
    }
    if let Some(t) = sc.target {
        b = b.target_state_count(t);
    }
    fn finish<C: Checker<GraphModel> + Send + 'static>(c: C, slog: &StateLog, limit: Duration) -> Outcome {
        let market = my_market();
        match join_with_watchdog(c, limit) {
            Joined::Returned(c, t) => {
                let discoveries = match guarded(|| c.discoveries().keys().copied().collect::<BTreeSet<_>>()) {
                    Ok(d) => d,
                    Err(msg) => return Outcome::Panicked(format!("discoveries(): {}", msg), market),
                };
                let o = Observed {
                    visited: slog.take(),
                    discoveries,
                    unique: c.unique_state_count(),
                    is_done: c.is_done(),
                    join_time: t,
                    market,
                };
                drop(c);
                Outcome::Done(o)
            }
            Joined::Panicked(msg, _) => Outcome::Panicked(msg, market),
            Joined::Hung => Outcome::Hung(market),
        }
    }
    match strat {
        Strat::Bfs => finish(b.spawn_bfs(), &slog, limit),
        Strat::Dfs => finish(b.spawn_dfs(), &slog, limit),
        Strat::OnDemand => {
            let c = b.spawn_on_demand();
            if let Some(rng) = extra_requests {
                // interleave targeted requests before asking for completion
                let inits = model.init_states();
                for _ in 0..rng.below(4) {
                    if inits.is_empty() {
                        break;
                    }
                    let s = *rng.pick(&inits);
                    if let Some(fp) = std::num::NonZeroU64::new(verif::fingerprint_of(&s)) {
                        c.check_fingerprint(fp);
                    }
                }
            }
            c.run_to_completion();
            finish(c, &slog, limit)
        }
    }
}

fn hang_verdict(case: &Case, what: &str, strat: Strat, threads: usize, market: Option<usize>, model: &GraphModel) {
    let (class, evidence) = diagnose_hang(market);
    match class {
        Some(class) => case.violation(
            &format!("C05/{}/{}/join-hangs:{}", what, strat.name(), class),
            json!({"model": model.summary(), "threads": threads, "diagnosis": evidence}),
        ),
        None => case.inconclusive(&format!("{} {} t={}: join not back within the watchdog but the market is still changing", what, strat.name(), threads)),
    }
}

fn account_market(case: &Case, market: Option<usize>, strat: Strat, model: &GraphModel, threads: usize) -> bool {
    let Some(market) = market else {
        case.inconclusive("market of the run could not be identified");
        return true;
    };
    let events = take_events(market);
    case.add("market_events_logged", events.len() as u64);
    if events.is_empty() {
        case.inconclusive("no market events recorded (hook not reached)");
        return true;
    }
    case.ctx.set_insert("interleavings", interleaving_hash(&events));
    match check_market_trace(&events, true) {
        Ok(st) => {
            case.add("market_pushes", st.pushes);
            case.add("market_pops", st.pops);
            case.add("market_waits", st.waits);
            case.add("market_wakes", st.wakes);
            case.add("market_splits_sharing", st.splits_sharing);
            case.add("market_batches_shared", st.batches_shared);
            case.add("market_closed_by_last_worker", st.close_by_last);
            case.add("market_drops", st.drops);
            case.add("market_batches_discarded_at_close", st.discarded_batches);
            case.add("market_pops_after_close", st.pops_after_close);
            true
        }
        Err(reason) => {
            let short = reason.split("): ").last().unwrap_or(&reason).to_string();
            let tail: Vec<String> = events.iter().rev().take(15).rev().map(|(t, k)| format!("t{} {:?}", t, k)).collect();
            case.violation(
                &format!("C05/market-spec/{}/{}", strat.name(), short),
                json!({"model": model.summary(), "threads": threads, "reason": reason, "events": events.len(), "last_events": tail}),
            );
            false
        }
    }
}

fn exhaustive_case(case: &mut Case, large: bool, thread_choices: &[usize]) {
    let mut g = if large {
        let (d, w) = *case.rng.pick(&[(6usize, 2500usize), (5, 5000), (10, 1500)]);
        let mut g = gen_graph(&mut case.rng, &Knobs { layered: Some((d, w)), ..Knobs::default() });
        g.spin_us = *case.rng.pick(&[0u64, 0, 1, 3]);
        g
    } else {
        let mut g = gen_graph(&mut case.rng, &Knobs { max_n: 60, ..Knobs::default() });
        g.spin_us = *case.rng.pick(&[0u64, 0, 5, 20]);
        g
    };
    let reach = g.reach();
    add_props_with_keepalive(&mut case.rng, &mut g, &reach, 2);
    case.distinct(g.structural_hash(), reach.count >= 2);
    let model = GraphModel(Arc::new(g));
    case.sample(|| model.summary());
    // single-threaded reference verdicts
    let reference = match spawn_and_join(&model, Strat::Bfs, &Scenario { threads: 1, finish_when: None, target: None }, Duration::from_secs(120), None) {
        Outcome::Done(o) => {
            let _ = o.market.map(take_events);
            o
        }
        Outcome::Panicked(msg, _) => {
            case.violation("C05/exhaustive/bfs/single-thread-run-panicked", json!({"model": model.summary(), "panic": msg}));
            return;
        }
        Outcome::Hung(market) => {
            hang_verdict(case, "exhaustive", Strat::Bfs, 1, market, &model);
            return;
        }
    };
    for strat in [Strat::Bfs, Strat::Dfs, Strat::OnDemand] {
        let threads = *case.rng.pick(thread_choices);
        let sc = Scenario { threads, finish_when: None, target: None };
        let mut rq = case.rng.fork();
        let outcome = spawn_and_join(&model, strat, &sc, Duration::from_secs(if large { 180 } else { 60 }), Some(&mut rq));
        case.add(&format!("runs_{}_t{}", strat.name(), threads), 1);
        match outcome {
            Outcome::Hung(market) => {
                hang_verdict(case, "exhaustive", strat, threads, market, &model);
                return;
            }
            Outcome::Panicked(msg, _) => {
                case.violation(
                    &format!("C05/exhaustive/{}/join-panicked-without-model-panic", strat.name()),
                    json!({"model": model.summary(), "threads": threads, "panic": msg}),
                );
                return;
            }
            Outcome::Done(o) => {
                case.add("states_visited", o.visited.len() as u64);
                case.add("join_returns_observed", 1);
                let _ = o.join_time;
                let mut seen = vec![0u32; model.n];
                for s in &o.visited {
                    seen[*s as usize] += 1;
                }
                for s in 0..model.n {
                    let expect = u32::from(reach.reachable[s]);
                    if seen[s] != expect {
                        let what = if seen[s] == 0 {
                            "state-lost"
                        } else if expect == 0 {
                            "unreachable-state-evaluated"
                        } else {
                            "state-evaluated-twice"
                        };
                        case.violation(
                            &format!("C05/exhaustive/{}/{}", strat.name(), what),
                            json!({"model": model.summary(), "threads": threads, "state": s, "times": seen[s],
                                   "visited": o.visited.len(), "reachable": reach.count}),
                        );
                        return;
                    }
                }
                // always/sometimes verdicts must equal the single-threaded ones
                let relevant = |names: &BTreeSet<&'static str>| -> BTreeSet<&'static str> {
                    names
                        .iter()
                        .filter(|n| {
                            let idx = NAMES.iter().position(|m| m == *n).unwrap();
                            model.props[idx].0 != Expectation::Eventually
                        })
                        .copied()
                        .collect()
                };
                if relevant(&o.discoveries) != relevant(&reference.discoveries) {
                    case.violation(
                        &format!("C05/exhaustive/{}/verdicts-differ-from-single-threaded-run", strat.name()),
                        json!({"model": model.summary(), "threads": threads, "single": reference.discoveries, "multi": o.discoveries}),
                    );
                    return;
                }
                if o.unique != reference.unique || !o.is_done {
                    case.violation(
                        &format!("C05/exhaustive/{}/counters-differ-from-single-threaded-run", strat.name()),
                        json!({"model": model.summary(), "threads": threads, "unique": o.unique, "single_unique": reference.unique, "is_done": o.is_done}),
                    );
                    return;
                }
                if !account_market(case, o.market, strat, &model, threads) {
                    return;
                }
            }
        }
    }
}

/// One worker reaches a stop reason early; everybody must stop within about a block each.
fn early_stop_case(case: &mut Case) {
    let (d, w) = *case.rng.pick(&[(8usize, 3000usize), (6, 5000)]);
    let mut g = gen_graph(&mut case.rng, &Knobs { layered: Some((d, w)), ..Knobs::default() });
    g.spin_us = 2;
    let reach = g.reach();
    // a sometimes-property true at exactly one state in the second or third layer
    let cands: Vec<usize> = (0..g.n).filter(|s| reach.reachable[*s] && (1..=2).contains(&reach.dist[*s])).collect();
    if cands.is_empty() {
        case.distinct(g.structural_hash(), false);
        return;
    }
    let target_state = *case.rng.pick(&cands);
    let mut l = vec![false; g.n];
    l[target_state] = true;
    g.labels.push(l);
    g.props.push((Expectation::Sometimes, 0));
    g.labels.push(vec![true; g.n]);
    g.props.push((Expectation::Always, 1));
    case.distinct(g.structural_hash(), true);
    let model = GraphModel(Arc::new(g));
    case.sample(|| model.summary());
    let use_target = case.rng.pct(40);
    for strat in [Strat::Bfs, Strat::Dfs] {
        let threads = *case.rng.pick(&[2usize, 4, 8, 16]);
        let sc = if use_target {
            let mut never = BTreeSet::new();
            never.insert("zz");
            Scenario { threads, finish_when: Some(HasDiscoveries::AllOf(never)), target: Some(case.rng.range(2000, 6000)) }
        } else {
            Scenario { threads, finish_when: Some(HasDiscoveries::Any), target: None }
        };
        let what = if use_target { "target-reached" } else { "finish-condition" };
        match spawn_and_join(&model, strat, &sc, Duration::from_secs(60), None) {
            Outcome::Hung(market) => {
                hang_verdict(case, what, strat, threads, market, &model);
                return;
            }
            Outcome::Panicked(msg, _) => {
                case.violation(&format!("C05/{}/{}/join-panicked", what, strat.name()), json!({"model": model.summary(), "panic": msg}));
                return;
            }
            Outcome::Done(o) => {
                case.add(&format!("early_stop_runs_{}", what), 1);
                let exhaustive = o.visited.len() >= reach.count;
                if !exhaustive {
                    case.add("early_stops_observed", 1);
                }
                if !use_target {
                    // evaluations after the discovery: everybody finishes at most the block at hand
                    if let Some(pos) = o.visited.iter().position(|s| *s as usize == target_state) {
                        let after = o.visited.len() - pos - 1;
                        let bound = 2 * 1500 * threads;
                        case.add("post_stop_evaluations_measured", 1);
                        if after > bound && !exhaustive {
                            case.violation(
                                &format!("C05/finish-condition/{}/workers-keep-evaluating-after-stop", strat.name()),
                                json!({"model": model.summary(), "threads": threads, "evaluations_after_discovery": after, "bound": bound}),
                            );
                            return;
                        }
                    }
                }
                if !account_market(case, o.market, strat, &model, threads) {
                    return;
                }
            }
        }
    }
}

/// The on-demand checker driven step by step: targeted `check_fingerprint` requests while the
/// workers hold pending states and wait for commands, then `run_to_completion` and `join`.
/// Whatever the requests were and whichever worker stopped first (all properties discovered),
/// `join` must return, no state may be evaluated twice, and a run that was not cut short must
/// have evaluated exactly the reachable set.
fn on_demand_stepwise_case(case: &mut Case) {
    let mut g = gen_graph(&mut case.rng, &Knobs { max_n: 30, allow_outside_inits: false, ..Knobs::default() });
    let mut reach = g.reach();
    for _ in 0..6 {
        if reach.count >= 4 {
            break;
        }
        g = gen_graph(&mut case.rng, &Knobs { max_n: 30, allow_outside_inits: false, ..Knobs::default() });
        reach = g.reach();
    }
    if reach.count < 3 {
        case.distinct(g.structural_hash(), false);
        case.add("on_demand_stepwise_skipped_tiny_model", 1);
        return;
    }
    // Either every property can be discovered (the worker that makes the last discovery stops
    // while others still hold states) or a keep-alive keeps the run exhaustive.
    let stop_early = case.rng.pct(65);
    if stop_early {
        for _ in 0..case.rng.range(1, 2) {
            let reachable: Vec<usize> = (0..g.n).filter(|s| reach.reachable[*s] && reach.dist[*s] >= 1).collect();
            if reachable.is_empty() {
                break;
            }
            let witness = *case.rng.pick(&reachable);
            let sometimes = case.rng.pct(50);
            let mut l = vec![!sometimes; g.n];
            l[witness] = sometimes;
            g.labels.push(l);
            g.props.push((if sometimes { Expectation::Sometimes } else { Expectation::Always }, g.labels.len() - 1));
        }
        if g.props.is_empty() {
            case.distinct(g.structural_hash(), false);
            return;
        }
    } else {
        add_props_with_keepalive(&mut case.rng, &mut g, &reach, 1);
    }
    case.distinct(g.structural_hash() ^ stop_early as u64, true);
    let model = GraphModel(Arc::new(g));
    case.sample(|| model.summary());
    let threads = *case.rng.pick(&[2usize, 2, 3, 4, 8]);
    let slog = StateLog::default();
    let c = model.clone().checker().threads(threads).visitor(slog.clone()).spawn_on_demand();
    let market = my_market();
    // step-wise phase: request generated-but-unevaluated states, following the oracle's frontier
    let mut frontier: Vec<u32> = model.inits.iter().copied().filter(|s| model.inb[*s as usize]).collect();
    let mut generated: BTreeSet<u32> = frontier.iter().copied().collect();
    let mut requested = Vec::new();
    let steps = case.rng.range(1, 8);
    'steps: for _ in 0..steps {
        if frontier.is_empty() {
            break;
        }
        let s = frontier.swap_remove(case.rng.below(frontier.len()));
        let Some(fp) = std::num::NonZeroU64::new(verif::fingerprint_of(&s)) else { break };
        c.check_fingerprint(fp);
        requested.push(s);
        // wait (bounded) until the visitor has been shown the requested state
        let t = Instant::now();
        loop {
            if slog.0.lock().unwrap().contains(&s) {
                break;
            }
            if t.elapsed() > Duration::from_millis(300) {
                // not evaluated: the workers may have stopped already (all properties
                // discovered); go on to completion
                break 'steps;
            }
            std::thread::sleep(Duration::from_micros(100));
        }
        for e in &model.out[s as usize] {
            if let Some(t) = e {
                if model.inb[*t as usize] && generated.insert(*t) {
                    frontier.push(*t);
                }
            }
        }
        if case.rng.pct(30) {
            std::thread::sleep(Duration::from_micros(case.rng.range(50, 2000) as u64));
        }
    }
    case.add("on_demand_stepwise_requests", requested.len() as u64);
    c.run_to_completion();
    match join_with_watchdog(c, Duration::from_secs(20)) {
        Joined::Hung => {
            // the workers wait on their command channels, not in the market: three silent,
            // identical market pictures after run_to_completion was sent = nobody will ever move
            let (class, evidence) = diagnose_hang(market);
            match class {
                Some(class) => case.violation(
                    &format!("C05/on-demand-stepwise/on_demand/join-hangs-after-run_to_completion:{}", class),
                    json!({"model": model.summary(), "threads": threads, "requested": requested, "diagnosis": evidence,
                           "evaluated_so_far": slog.0.lock().unwrap().len()}),
                ),
                None => case.inconclusive("step-wise on-demand: join not back within the watchdog but the market is still changing"),
            }
        }
        Joined::Panicked(msg, _) => {
            case.violation("C05/on-demand-stepwise/on_demand/join-panicked-without-model-panic", json!({"model": model.summary(), "threads": threads, "panic": msg}));
        }
        Joined::Returned(c, _) => {
            case.add("on_demand_stepwise_joins", 1);
            let visited = slog.take();
            let discovered = match guarded(|| c.discoveries().len()) {
                Ok(n) => n,
                Err(msg) => {
                    case.violation("C05/on-demand-stepwise/on_demand/discoveries-panicked", json!({"model": model.summary(), "panic": msg}));
                    return;
                }
            };
            let cut_short = discovered == model.props.len();
            if cut_short {
                case.add("on_demand_stepwise_stopped_by_discoveries", 1);
            }
            let mut seen = vec![0u32; model.n];
            for s in &visited {
                seen[*s as usize] += 1;
            }
            for s in 0..model.n {
                let what = if seen[s] > 1 {
                    "state-evaluated-twice"
                } else if seen[s] == 1 && !reach.reachable[s] {
                    "unreachable-state-evaluated"
                } else if seen[s] == 0 && reach.reachable[s] && !cut_short {
                    "state-lost"
                } else {
                    continue;
                };
                case.violation(
                    &format!("C05/on-demand-stepwise/on_demand/{}", what),
                    json!({"model": model.summary(), "threads": threads, "state": s, "times": seen[s], "requested": requested,
                           "visited": visited.len(), "reachable": reach.count}),
                );
                return;
            }
            if !c.is_done() {
                case.violation("C05/on-demand-stepwise/on_demand/not-done-after-join", json!({"model": model.summary(), "threads": threads}));
                return;
            }
            drop(c);
            account_market(case, market, Strat::OnDemand, &model, threads);
        }
    }
}

/// A panic in model code must surface from `join` (not hang) for every strategy.
fn panic_case(case: &mut Case) {
    let large = case.rng.pct(50);
    let mut g = if large {
        gen_graph(&mut case.rng, &Knobs { layered: Some((6, 2500)), ..Knobs::default() })
    } else {
        gen_graph(&mut case.rng, &Knobs { max_n: 40, allow_outside_inits: false, ..Knobs::default() })
    };
    let reach = g.reach();
    let rs: Vec<usize> = (0..g.n).filter(|s| reach.reachable[*s]).collect();
    if rs.is_empty() {
        case.distinct(g.structural_hash(), false);
        return;
    }
    add_props_with_keepalive(&mut case.rng, &mut g, &reach, 1);
    let at = *case.rng.pick(&rs) as u32;
    let in_property = case.rng.pct(40);
    if in_property {
        g.panic_in_property = Some(at);
    } else {
        g.panic_in_next_state = Some(at);
    }
    // a panic in next_state needs an outgoing action to be reached
    let reachable_panic = in_property || !g.out[at as usize].is_empty();
    case.distinct(g.structural_hash(), reachable_panic);
    if !reachable_panic {
        return;
    }
    let model = GraphModel(Arc::new(g));
    case.sample(|| json!({"model": model.summary(), "panic_at": at, "in_property": in_property}));
    for strat in [Strat::Bfs, Strat::Dfs, Strat::OnDemand] {
        let threads = *case.rng.pick(&[1usize, 2, 4, 8]);
        let sc = Scenario { threads, finish_when: None, target: None };
        match spawn_and_join(&model, strat, &sc, Duration::from_secs(60), None) {
            Outcome::Hung(market) => {
                hang_verdict(case, "model-panic", strat, threads, market, &model);
                return;
            }
            Outcome::Panicked(_, market) => {
                case.add("model_panics_surfaced_from_join", 1);
                let _ = market.map(take_events);
            }
            Outcome::Done(o) => {
                // the panicking state may legitimately not have been reached only if the run was
                // cut short; it was exhaustive here, so the panic was swallowed
                let _ = o.market.map(take_events);
                case.violation(
                    &format!("C05/model-panic/{}/panic-does-not-surface-from-join", strat.name()),
                    json!({"model": model.summary(), "threads": threads, "panic_at": at, "in_property": in_property}),
                );
                return;
            }
        }
    }
}

/// Blocks that take longer than a second (a slow model: about a millisecond per state), so that
/// idle workers stay parked in the market for seconds while another one is busy - timed waits,
/// spurious wake-ups and "nobody has worked for a while" heuristics have their window here.
/// Same verdict as everywhere: the multi-threaded run evaluates exactly the reachable set.
fn slow_blocks_case(case: &mut Case) {
    let (d, w) = *case.rng.pick(&[(3usize, 900usize), (2, 1500)]);
    let mut g = gen_graph(&mut case.rng, &Knobs { layered: Some((d, w)), ..Knobs::default() });
    g.inits = (0..(w / 2) as u32).collect();
    g.spin_us = *case.rng.pick(&[700u64, 1000]);
    let reach = g.reach();
    add_props_with_keepalive(&mut case.rng, &mut g, &reach, 0);
    case.distinct(g.structural_hash(), reach.count >= 1500);
    let model = GraphModel(Arc::new(g));
    case.sample(|| model.summary());
    let strat = *case.rng.pick(&[Strat::Bfs, Strat::Dfs]);
    let threads = *case.rng.pick(&[2usize, 4]);
    let sc = Scenario { threads, finish_when: None, target: None };
    match spawn_and_join(&model, strat, &sc, Duration::from_secs(120), None) {
        Outcome::Hung(market) => hang_verdict(case, "slow-blocks", strat, threads, market, &model),
        Outcome::Panicked(msg, _) => {
            case.violation(&format!("C05/slow-blocks/{}/join-panicked-without-model-panic", strat.name()), json!({"model": model.summary(), "threads": threads, "panic": msg}));
        }
        Outcome::Done(o) => {
            case.add("slow_block_runs", 1);
            case.add("states_visited", o.visited.len() as u64);
            let mut seen = vec![0u32; model.n];
            for s in &o.visited {
                seen[*s as usize] += 1;
            }
            for s in 0..model.n {
                let expect = u32::from(reach.reachable[s]);
                if seen[s] != expect {
                    let what = if seen[s] == 0 { "state-lost" } else if expect == 0 { "unreachable-state-evaluated" } else { "state-evaluated-twice" };
                    case.violation(
                        &format!("C05/slow-blocks/{}/{}", strat.name(), what),
                        json!({"model": model.summary(), "threads": threads, "state": s, "times": seen[s], "visited": o.visited.len(), "reachable": reach.count,
                               "join_s": o.join_time.as_secs_f64()}),
                    );
                    return;
                }
            }
            if !o.is_done {
                case.violation(&format!("C05/slow-blocks/{}/not-done-after-join", strat.name()), json!({"model": model.summary(), "threads": threads}));
                return;
            }
            account_market(case, o.market, strat, &model, threads);
        }
    }
}

/// A panic in model code during simulation: `join` must end (with the panic), not hang and not
/// return as if nothing had happened. The panic sits in `next_state` of the only initial state,
/// so the very first trace of every worker reaches it.
fn simulation_panic_case(case: &mut Case) {
    let mut g = gen_graph(&mut case.rng, &Knobs { max_n: 30, allow_outside_inits: false, ..Knobs::default() });
    let Some(init) = g.inits.iter().copied().find(|i| g.inb[*i as usize] && g.out[*i as usize].iter().any(|e| e.is_some())) else {
        case.distinct(g.structural_hash(), false);
        return;
    };
    g.inits = vec![init];
    let reach = g.reach();
    add_props_with_keepalive(&mut case.rng, &mut g, &reach, 1);
    g.panic_in_next_state = Some(init);
    case.distinct(g.structural_hash(), true);
    let model = GraphModel(Arc::new(g));
    case.sample(|| json!({"model": model.summary(), "panic_at": init}));
    let threads = *case.rng.pick(&[1usize, 2, 3, 4]);
    let c = model.clone().checker().threads(threads).target_state_count(2000).spawn_simulation(case.rng.next_u64() % 1000, stateright::UniformChooser);
    match join_with_watchdog(c, Duration::from_secs(30)) {
        Joined::Panicked(..) => case.add("simulation_panics_surfaced_from_join", 1),
        Joined::Returned(..) => case.violation(
            "C05/model-panic/simulation/panic-does-not-surface-from-join",
            json!({"model": model.summary(), "threads": threads, "panic_at": init}),
        ),
        Joined::Hung => case.violation(
            "C05/model-panic/simulation/join-hangs-after-a-model-panic",
            json!({"model": model.summary(), "threads": threads, "panic_at": init, "note": "every worker's first trace panics; nothing is left running"}),
        ),
    }
}

/// The `Broker` facade driven directly by worker threads over a synthetic job tree.
pub fn broker_case(case: &mut Case) {
    let threads = case.rng.range(2, 6);
    let total_depth = case.rng.range(3, 7) as u32;
    let fanout = case.rng.range(1, 3) as u32;
    let block = case.rng.range(1, 6);
    broker_case_with(case, threads, total_depth, fanout, block);
}

pub fn broker_case_with(case: &mut Case, threads: usize, total_depth: u32, fanout: u32, block: usize) {
    case.distinct(crate::ctx::hash_of(&(threads, total_depth, fanout, block)), true);
    case.sample(|| json!({"threads": threads, "depth": total_depth, "fanout": fanout, "block": block}));
    // job = (id, depth); processing a job of depth < total_depth creates `fanout` children
    let mut broker: verif::Broker<(u64, u32)> = verif::Broker::new(threads, None);
    let market = my_market().unwrap_or(0); // the unique id under which this market's events are filed
    let _ = broker.id();
    let mut init = std::collections::VecDeque::new();
    init.push_back((1u64, 0u32));
    broker.push(init);
    let processed = Arc::new(Mutex::new(Vec::<u64>::new()));
    let mut handles = Vec::new();
    for _ in 0..threads {
        let mut b = broker.clone();
        let processed = processed.clone();
        handles.push(std::thread::spawn(move || {
            let mut pending = std::collections::VecDeque::new();
            loop {
                if pending.is_empty() {
                    pending = b.pop();
                    if pending.is_empty() {
                        return;
                    }
                }
                for _ in 0..block {
                    let Some((id, depth)) = pending.pop_back() else { break };
                    processed.lock().unwrap().push(id);
                    if depth < total_depth {
                        for c in 0..fanout {
                            pending.push_front((id * (fanout as u64 + 1) + c as u64 + 1, depth + 1));
                        }
                    }
                }
                if !pending.is_empty() {
                    b.split_and_push(&mut pending);
                }
            }
        }));
    }
    let start = Instant::now();
    while handles.iter().any(|h| !h.is_finished()) {
        if start.elapsed() > Duration::from_secs(30) {
            let (class, evidence) = diagnose_hang(Some(market));
            match class {
                Some(class) => case.violation(&format!("C05/broker/workers-hang:{}", class), json!({"threads": threads, "diagnosis": evidence})),
                None => case.inconclusive("broker workers not done within the watchdog but the market is still changing"),
            }
            return;
        }
        std::thread::sleep(Duration::from_micros(200));
    }
    for h in handles {
        let _ = h.join();
    }
    let closed = broker.is_closed();
    drop(broker);
    // expected job ids: the whole tree
    let mut expected = Vec::new();
    let mut frontier = vec![(1u64, 0u32)];
    while let Some((id, depth)) = frontier.pop() {
        expected.push(id);
        if depth < total_depth {
            for c in 0..fanout {
                frontier.push((id * (fanout as u64 + 1) + c as u64 + 1, depth + 1));
            }
        }
    }
    expected.sort();
    let mut got = processed.lock().unwrap().clone();
    got.sort();
    case.add("broker_jobs_processed", got.len() as u64);
    if got != expected {
        let mut dup = BTreeMap::new();
        for id in &got {
            *dup.entry(*id).or_insert(0u32) += 1;
        }
        let twice = dup.values().filter(|c| **c > 1).count();
        case.violation(
            if twice > 0 { "C05/broker/job-handed-to-two-workers" } else { "C05/broker/job-lost" },
            json!({"threads": threads, "expected_jobs": expected.len(), "processed_jobs": got.len(), "processed_twice": twice}),
        );
        return;
    }
    if !closed {
        case.violation("C05/broker/is_closed-false-after-all-workers-ended", json!({"threads": threads}));
        return;
    }
    let events = take_events(market);
    case.add("market_events_logged", events.len() as u64);
    case.ctx.set_insert("interleavings", interleaving_hash(&events));
    match check_market_trace(&events, true) {
        Ok(st) => {
            case.add("market_splits_sharing", st.splits_sharing);
            case.add("market_waits", st.waits);
            case.add("market_wakes", st.wakes);
            case.add("market_closed_by_last_worker", st.close_by_last);
        }
        Err(reason) => {
            let short = reason.split("): ").last().unwrap_or(&reason).to_string();
            case.violation(&format!("C05/market-spec/broker/{}", short), json!({"reason": reason, "threads": threads}));
        }
    }
}

/// Simulation: must terminate on every stop reason and report only valid discoveries.
fn simulation_case(case: &mut Case) {
    let mut g = gen_graph(&mut case.rng, &Knobs { max_n: 40, allow_outside_inits: false, ..Knobs::default() });
    let reach = g.reach();
    if reach.count == 0 {
        case.distinct(g.structural_hash(), false);
        return;
    }
    crate::checks::c03::gen_props_all_kinds(&mut case.rng, &mut g, &reach, 3);
    case.distinct(g.structural_hash(), true);
    let model = GraphModel(Arc::new(g));
    case.sample(|| model.summary());
    let threads = *case.rng.pick(&[2usize, 4, 8]);
    let cfg = crate::runner::RunCfg {
        threads,
        visitor: 0,
        target_state_count: Some(case.rng.range(50, 3000)),
        finish_when: crate::checks::c03::gen_finish_when(&mut case.rng, 3),
        watchdog: Duration::from_secs(30),
        ..crate::runner::RunCfg::default()
    };
    let out = crate::runner::run_checker(&model, crate::runner::Strategy::Simulation(case.rng.next_u64() % 1000), &cfg, false);
    case.add("simulation_runs", 1);
    if !out.finished {
        case.violation("C05/simulation/does-not-terminate-on-target", json!({"model": model.summary(), "threads": threads, "target": cfg.target_state_count}));
        return;
    }
    crate::checks::c03::judge_discoveries(case, &model, "simulation", &cfg, &out, true);
}

/// Simulation with several workers and *no* state-count target: the only way to stop is the
/// finish condition. Once it holds (observed through `discoveries()`), every worker may finish
/// the trace at hand and must then stop. The verdict is a logical bound on the evaluations made
/// after the condition was observed (a runaway worker exceeds any bound within milliseconds),
/// not a deadline.
fn simulation_finish_case(case: &mut Case) {
    let mut g = gen_graph(&mut case.rng, &Knobs { max_n: 25, allow_outside_inits: false, ..Knobs::default() });
    let reach = g.reach();
    let near: Vec<usize> = (0..g.n).filter(|s| reach.reachable[*s] && reach.dist[*s] <= 2).collect();
    if near.is_empty() {
        case.distinct(g.structural_hash(), false);
        return;
    }
    // 1-3 properties, each with a witness close to an initial state, so that random traces
    // find them all
    for _ in 0..case.rng.range(1, 3) {
        let witness = *case.rng.pick(&near);
        let sometimes = case.rng.pct(50);
        let mut l = vec![!sometimes; g.n];
        l[witness] = sometimes;
        g.labels.push(l);
        g.props.push((if sometimes { Expectation::Sometimes } else { Expectation::Always }, g.labels.len() - 1));
    }
    let nprops = g.props.len();
    let n = g.n as u64;
    case.distinct(g.structural_hash(), true);
    let model = GraphModel(Arc::new(g));
    case.sample(|| model.summary());
    let threads = *case.rng.pick(&[2usize, 3, 4, 8]);
    // the default finish condition (all properties) or an explicit one that needs them all
    let mut b = model.clone().checker().threads(threads);
    if case.rng.pct(50) {
        b = b.finish_when(HasDiscoveries::AllOf(NAMES.iter().take(nprops).copied().collect()));
    }
    let mut c = b.spawn_simulation(case.rng.next_u64() % 1000, stateright::UniformChooser);
    let hs = c.handles();
    let wit = || json!({"model": model.summary(), "threads": threads});
    let t = Instant::now();
    // phase 1: wait until the condition holds
    loop {
        if guarded(|| c.discoveries().len()).unwrap_or(0) == nprops {
            break;
        }
        if hs.iter().all(|h| h.is_finished()) {
            break;
        }
        if t.elapsed() > Duration::from_secs(20) {
            case.inconclusive("simulation did not find all witnesses within the watchdog");
            return; // (the workers keep running until the process ends; the case is not judged)
        }
        std::thread::sleep(Duration::from_micros(200));
    }
    case.add("simulation_finish_conditions_observed", 1);
    // phase 2: everybody stops after the trace at hand. Logical clocks: evaluations made by the
    // model, and traces finished per worker thread (a worker whose traces have nothing left to
    // evaluate still finishes traces).
    let calls0 = model.actions_calls.load(Ordering::Relaxed);
    let traces0: Vec<u64> = hs.iter().map(|h| traces_of(h.thread().id())).collect();
    let bound = 1000 * threads as u64 * (n + 1);
    let t = Instant::now();
    loop {
        if hs.iter().all(|h| h.is_finished()) {
            case.add("simulation_runs_stopped_by_finish_condition", 1);
            return;
        }
        let after = model.actions_calls.load(Ordering::Relaxed) - calls0;
        let traces_after: u64 = hs.iter().zip(&traces0).filter(|(h, _)| !h.is_finished()).map(|(h, t0)| traces_of(h.thread().id()) - t0).max().unwrap_or(0);
        if after > bound || traces_after > 10_000 {
            case.violation(
                "C05/simulation/workers-keep-simulating-after-the-finish-condition-holds",
                json!({"run": wit(), "evaluations_after_the_condition_was_observed": after, "bound": bound,
                       "traces_finished_by_one_worker_after_the_condition_was_observed": traces_after,
                       "workers_still_running": hs.iter().filter(|h| !h.is_finished()).count()}),
            );
            return;
        }
        if t.elapsed() > Duration::from_secs(30) {
            case.inconclusive("simulation workers neither stopped nor exceeded the evaluation bound within the watchdog");
            return;
        }
        std::thread::sleep(Duration::from_micros(500));
    }
}

pub fn run(ctx: &mut Ctx) {
    ctx.rule = "Multi-threaded (2-32 threads) BFS/DFS/on-demand runs of G1 graphs, repeated under 7 perturbation \
        profiles (none, yield, spin, sleep, slow one worker, slow the sharer, slow wake-ups) injected at the \
        hook points between critical sections, with default and tiny (1-8) block sizes; large layered graphs \
        so that real 1500-state blocks are shared; stop reasons: exhaustion, finish condition met by one \
        worker, target reached, panic injected in next_state / in a property; the Broker facade driven \
        directly over synthetic job trees; simulation termination. Every market's event log (emitted under \
        its own lock) is checked against a sequential market specification. Non-trivial: >=2 reachable \
        states (exhaustive), the stop reason was reachable (early stop / panic). 'distinct_interleavings' \
        counts distinct thread-normalised market event sequences. Additional sub-checks: (on_demand_stepwise) requests along the oracle's frontier while workers hold shared states, then run_to_completion + join; (simulation_finish_condition) several simulation workers without a target must all stop once the finish condition holds (logical clocks: model evaluations and traces finished per worker thread); (simulation_model_panic) a panic in next_state must surface from join.".into();
    ctx.assumptions = vec![
        "schedules are those produced by the OS scheduler plus the injected perturbations; not enumerated".into(),
        "a join that is late while the market still changes is inconclusive; only a stable parked picture is a hang".into(),
        "which path a multi-threaded run reports may differ; only verdict sets, visited multisets and counters are compared".into(),
    ];
    install_sink();
    install_perturber();
    let ctx = &*ctx;
    if std::env::var_os("SVMON_LANE").is_some() {
        // reduced workload for the sanitizer lanes (runs 5-15x slower)
        lane_workload(ctx);
        verif::set_sink(None);
        verif::set_perturber(None);
        return;
    }
    let reps = ctx.n(1, 12);
    for rep in 0..reps {
        for (pi, pname) in PROFILES.iter().enumerate() {
            set_profile(pi, mix(&[ctx.seed, rep, pi as u64]));
            for bs in [0usize, 1, 3, 8] {
                verif::set_block_size(bs);
                ctx.cases(&format!("exhaustive/{}/block{}", pname, bs), ctx.n(6, 20), 0, |case| {
                    case.rng = Rng::new(case.rng.next_u64() ^ rep);
                    exhaustive_case(case, false, &[2, 3, 4, 8, 16, 32]);
                });
                ctx.cases(&format!("broker/{}/round{}", pname, bs), ctx.n(10, 40), 0, |case| {
                    case.rng = Rng::new(case.rng.next_u64() ^ rep);
                    broker_case(case);
                });
            }
            verif::set_block_size(0);
            ctx.cases(&format!("exhaustive_large/{}", pname), ctx.n(1, 3), 2, |case| {
                case.rng = Rng::new(case.rng.next_u64() ^ rep);
                exhaustive_case(case, true, &[2, 4, 8, 16]);
            });
            ctx.cases(&format!("early_stop/{}", pname), ctx.n(2, 6), 2, |case| {
                case.rng = Rng::new(case.rng.next_u64() ^ rep);
                early_stop_case(case);
            });
            ctx.cases(&format!("on_demand_stepwise/{}", pname), ctx.n(40, 150), 0, |case| {
                case.rng = Rng::new(case.rng.next_u64() ^ rep);
                on_demand_stepwise_case(case);
            });
            for bs in [0usize, 2] {
                verif::set_block_size(bs);
                ctx.cases(&format!("model_panic/{}/block{}", pname, bs), ctx.n(4, 12), 0, |case| {
                    case.rng = Rng::new(case.rng.next_u64() ^ rep);
                    panic_case(case);
                });
            }
            verif::set_block_size(0);
        }
    }
    set_profile(0, 0);
    ctx.cases("simulation", ctx.n(40, 1500), 0, simulation_case);
    ctx.cases("simulation_finish_condition", ctx.n(60, 1500), 8, simulation_finish_case);
    ctx.cases("simulation_model_panic", ctx.n(30, 600), 0, simulation_panic_case);
    ctx.cases("slow_blocks", ctx.n(6, 40), 6, slow_blocks_case);
    ctx.info("perturbations_applied", json!(PERTURB_COUNT.load(Ordering::Relaxed)));
    verif::set_sink(None);
    verif::set_perturber(None);
    if !ctx.quick() && !ctx.is_replay() {
        sanitizer_lanes(ctx);
    }
}

fn lane_workload(ctx: &Ctx) {
    for (pi, pname) in [(0usize, "none"), (1, "yield"), (3, "sleep")] {
        set_profile(pi, mix(&[ctx.seed, pi as u64]));
        for bs in [0usize, 2] {
            verif::set_block_size(bs);
            ctx.cases(&format!("lane/exhaustive/{}/block{}", pname, bs), 16, 4, |case| exhaustive_case(case, false, &[2, 3, 4, 8]));
            ctx.cases(&format!("lane/broker/{}/round{}", pname, bs), 24, 4, broker_case);
            ctx.cases(&format!("lane/model_panic/{}/block{}", pname, bs), 8, 3, panic_case);
        }
        verif::set_block_size(0);
        ctx.cases(&format!("lane/early_stop/{}", pname), 2, 1, early_stop_case);
        ctx.cases(&format!("lane/on_demand_stepwise/{}", pname), 12, 4, on_demand_stepwise_case);
        ctx.cases(&format!("lane/exhaustive_large/{}", pname), 1, 1, |case| exhaustive_case(case, true, &[4, 8]));
    }
    set_profile(0, 0);
}

/// Runs the TSan and Miri lane scripts and turns their one-line JSON summaries into verdicts.
fn sanitizer_lanes(ctx: &Ctx) {
    let tools = ctx.verif_dir.join("tools");
    let run_script = |script: &str, args: &[&str], limit_s: u64| -> Option<Value> {
        let mut cmd = std::process::Command::new(tools.join(script));
        cmd.args(args).stdin(std::process::Stdio::null()).stderr(std::process::Stdio::null());
        let start = Instant::now();
        let mut child = cmd.stdout(std::process::Stdio::piped()).spawn().ok()?;
        loop {
            match child.try_wait() {
                Ok(Some(_)) => break,
                Ok(None) => {}
                Err(_) => return None,
            }
            if start.elapsed() > Duration::from_secs(limit_s) {
                let _ = child.kill();
                let _ = child.wait();
                return None;
            }
            std::thread::sleep(Duration::from_millis(200));
        }
        let out = child.wait_with_output().ok()?;
        String::from_utf8_lossy(&out.stdout).lines().rev().find_map(|l| serde_json::from_str::<Value>(l.trim()).ok())
    };
    ctx.cases("sanitizer/tsan", 1, 1, |case| {
        let seed = case.ctx.seed.to_string();
        case.distinct(1, true);
        match run_script("tsan_c05.sh", &[&seed], 1500) {
            None => case.inconclusive("TSan lane did not produce a summary"),
            Some(v) => {
                case.ctx.info("tsan_lane", v.clone());
                if v["built"].as_bool() != Some(true) {
                    case.inconclusive("TSan build failed (see harness/target-tsan/lane-out/build.log)");
                    return;
                }
                case.add("tsan_reports_total", v["reports"].as_u64().unwrap_or(0));
                if let Some(r) = v["stateright_reports"].as_array().and_then(|a| a.first()) {
                    let frames = r["frames"].as_array().map(|f| f.iter().filter_map(|x| x.as_str()).collect::<Vec<_>>().join("|")).unwrap_or_default();
                    case.violation(&format!("C05/tsan/{}", frames), v.clone());
                    return;
                }
                if v["exit"].as_i64() == Some(1) {
                    case.violation("C05/tsan-lane/monitor-violation-under-tsan", v.clone());
                } else if v["exit"].as_i64() != Some(0) && v["reports"].as_u64().unwrap_or(0) == 0 {
                    case.inconclusive(&format!("TSan run ended with exit code {}", v["exit"]));
                }
                case.sample(|| v.clone());
            }
        }
    });
    ctx.cases("sanitizer/miri", 1, 1, |case| {
        case.distinct(2, true);
        match run_script("miri_lane.sh", &["c05", "0..16"], 1800) {
            None => case.inconclusive("Miri lane did not produce a summary"),
            Some(v) => {
                case.ctx.info("miri_lane", v.clone());
                case.add("miri_seeds_ok", v["seeds_ok"].as_u64().unwrap_or(0));
                if v["built"].as_bool() != Some(true) {
                    case.inconclusive("Miri build failed");
                    return;
                }
                if let Some(u) = v["ub"].as_array().and_then(|a| a.first()) {
                    case.violation(&format!("C05/miri/{}", u.as_str().unwrap_or("report").chars().take(80).collect::<String>()), v.clone());
                    return;
                }
                if let Some(u) = v["violations"].as_array().and_then(|a| a.first()) {
                    case.violation(&format!("C05/miri-lane/{}", u.as_str().unwrap_or("violation")), v.clone());
                    return;
                }
                if v["seeds_ok"].as_u64().unwrap_or(0) == 0 {
                    case.inconclusive("no Miri seed completed");
                }
                case.sample(|| v.clone());
            }
        }
    });
}

/// Runs `tools/miri_lane.sh <what>` (UB smoke test of pure data-structure code) and records the
/// outcome under sub-check `sanitizer/miri-smoke`.
pub fn miri_smoke_lane(ctx: &Ctx, what: &str, pid: &str) {
    let script = ctx.verif_dir.join("tools").join("miri_lane.sh");
    ctx.cases("sanitizer/miri-smoke", 1, 1, |case| {
        case.distinct(3, true);
        let out = std::process::Command::new(&script).args([what, "0..2"]).stdin(std::process::Stdio::null()).stderr(std::process::Stdio::null()).output();
        let v = out.ok().and_then(|o| String::from_utf8_lossy(&o.stdout).lines().rev().find_map(|l| serde_json::from_str::<Value>(l.trim()).ok()));
        match v {
            None => case.inconclusive("Miri smoke lane did not produce a summary"),
            Some(v) => {
                case.ctx.info("miri_smoke_lane", v.clone());
                if v["built"].as_bool() != Some(true) {
                    case.inconclusive("Miri build failed");
                } else if let Some(u) = v["ub"].as_array().and_then(|a| a.first()) {
                    case.violation(&format!("{}/miri/{}", pid, u.as_str().unwrap_or("report").chars().take(80).collect::<String>()), v.clone());
                } else if let Some(u) = v["violations"].as_array().and_then(|a| a.first()) {
                    case.violation(&format!("{}/miri-lane/{}", pid, u.as_str().unwrap_or("violation")), v.clone());
                } else if v["seeds_ok"].as_u64().unwrap_or(0) == 0 {
                    case.inconclusive("no Miri seed completed");
                }
                case.sample(|| v.clone());
            }
        }
    });
}

/// `svmon --miri-lane c05`: a tiny workload with the same monitors, sized for the interpreter.
pub fn miri_lane() -> i32 {
    let mut ctx = Ctx::new("C05", crate::ctx::Tier::Quick, 7, None);
    ctx.verif_dir = std::env::temp_dir().join("svmon-miri-lane");
    install_sink();
    {
        let ctx = &ctx;
        verif::set_block_size(2);
        ctx.cases("miri/broker", 2, 1, |case| {
            let (depth, fanout) = if case.k == 0 { (3, 2) } else { (5, 1) };
            broker_case_with(case, 3, depth, fanout, 2);
        });
        ctx.cases("miri/exhaustive", 1, 1, |case| {
            let mut g = gen_graph(&mut case.rng, &Knobs { max_n: 10, allow_outside_inits: false, ..Knobs::default() });
            let reach = g.reach();
            add_props_with_keepalive(&mut case.rng, &mut g, &reach, 1);
            case.distinct(g.structural_hash(), true);
            let model = GraphModel(Arc::new(g));
            for strat in [Strat::Bfs, Strat::Dfs] {
                match spawn_and_join(&model, strat, &Scenario { threads: 3, finish_when: None, target: None }, Duration::from_secs(600), None) {
                    Outcome::Done(o) => {
                        let mut seen = vec![0u32; model.n];
                        for s in &o.visited {
                            seen[*s as usize] += 1;
                        }
                        if (0..model.n).any(|s| seen[s] != u32::from(reach.reachable[s])) {
                            case.violation(&format!("C05/exhaustive/{}/visited-multiset-wrong-under-miri", strat.name()), json!({}));
                            return;
                        }
                        if !account_market(case, o.market, strat, &model, 3) {
                            return;
                        }
                    }
                    Outcome::Panicked(msg, _) => {
                        case.violation("C05/exhaustive/join-panicked-under-miri", json!({ "panic": msg }));
                        return;
                    }
                    Outcome::Hung(_) => {
                        case.violation("C05/exhaustive/join-hangs-under-miri", json!({}));
                        return;
                    }
                }
            }
        });
        verif::set_block_size(0);
    }
    verif::set_sink(None);
    let code = ctx.finish();
    if code == 0 {
        println!("{}", json!({"miri_lane_ok": true}));
    } else {
        println!("{}", json!({"violation": "see VIOLATION lines above"}));
    }
    code
}
