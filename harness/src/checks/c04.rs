//! C04 — state identity is faithful: distinct states never merge, equal ones never split.
//!
//! Values are built from *descriptions* (sorted, structural); the oracle for "same identity" is
//! equality of descriptions. For every pair: descriptions equal <=> `==` <=> identical hash
//! byte streams (a recording hasher tells a systematic collision from 64-bit bad luck), and
//! equal => equal fingerprints.

use crate::ctx::{hash_of, Case, Ctx};
use crate::hist::{Ev, History};
use crate::rechash::{fp, stream_of};
use crate::rng::Rng;
use crate::tables::*;
use serde_json::{json, Value};
use stateright::actor::{Envelope, Id, Network, RandomChoices, Timers};
use stateright::semantics::register::{Register, RegisterOp, RegisterRet};
use stateright::semantics::{ConsistencyTester, LinearizabilityTester, SequentialConsistencyTester};
use stateright::util::{DenseNatMap, HashableHashMap, HashableHashSet, VectorClock};
use stateright::Model;
use std::collections::hash_map::RandomState;
use std::collections::{BTreeMap, BTreeSet};
use std::hash::Hash;
use std::sync::Arc;

type SetD = BTreeSet<u8>;
type MapD = BTreeMap<u8, u8>;

fn gen_setd(rng: &mut Rng) -> SetD {
    let n = rng.below(5);
    (0..n).map(|_| rng.below(6) as u8).collect()
}

fn gen_mapd(rng: &mut Rng) -> MapD {
    let n = rng.below(4);
    (0..n).map(|_| (rng.below(5) as u8, rng.below(3) as u8)).collect()
}

/// Builds the set in a random way: insertion order, capacity, pre-inserted-then-removed junk.
fn build_set(rng: &mut Rng, d: &SetD) -> HashableHashSet<u8> {
    let mut items: Vec<u8> = d.iter().copied().collect();
    rng.shuffle(&mut items);
    let mut s = match rng.below(3) {
        0 => HashableHashSet::new(),
        1 => HashableHashSet::with_capacity(rng.below(64)),
        _ => items.iter().copied().collect::<HashableHashSet<u8>>(),
    };
    if rng.pct(30) {
        s.insert(200);
        s.insert(201);
    }
    for x in &items {
        s.insert(*x);
    }
    s.remove(&200);
    s.remove(&201);
    s
}

fn build_set_std_hasher(rng: &mut Rng, d: &SetD) -> HashableHashSet<u8, RandomState> {
    let mut items: Vec<u8> = d.iter().copied().collect();
    rng.shuffle(&mut items);
    let mut s = HashableHashSet::with_hasher(RandomState::new());
    for x in items {
        s.insert(x);
    }
    s
}

fn build_map(rng: &mut Rng, d: &MapD) -> HashableHashMap<u8, u8> {
    let mut items: Vec<(u8, u8)> = d.iter().map(|(k, v)| (*k, *v)).collect();
    rng.shuffle(&mut items);
    let mut m = if rng.pct(50) { HashableHashMap::new() } else { HashableHashMap::with_capacity(rng.below(64)) };
    if rng.pct(30) {
        m.insert(250, 0);
    }
    for (k, v) in &items {
        if rng.pct(20) {
            m.insert(*k, v.wrapping_add(1)); // overwritten below
        }
        m.insert(*k, *v);
    }
    m.remove(&250);
    m
}

/// Judges one pair of values whose descriptions are known.
fn judge<T: Hash + PartialEq>(case: &Case, shape: &str, same_description: bool, a: &T, b: &T, wit: impl Fn() -> Value) -> bool {
    let eq = a == b;
    let (sa, sb) = (stream_of(a), stream_of(b));
    case.add("pairs_compared", 1);
    case.add(if same_description { "pairs_equal" } else { "pairs_different" }, 1);
    if same_description {
        if !eq {
            case.violation(&format!("C04/split/{}/equal-values-compare-unequal", shape), wit());
            return false;
        }
        if sa != sb {
            case.violation(&format!("C04/split/{}/equal-values-feed-different-hash-streams", shape), wit());
            return false;
        }
        if fp(a) != fp(b) {
            case.violation(&format!("C04/split/{}/equal-values-get-different-fingerprints", shape), wit());
            return false;
        }
    } else {
        if eq {
            case.violation(&format!("C04/merge/{}/different-values-compare-equal", shape), wit());
            return false;
        }
        if sa == sb {
            case.violation(&format!("C04/merge/{}/different-values-feed-identical-hash-stream", shape), wit());
            return false;
        }
    }
    true
}

/// A near miss of a list of set descriptions: move one element to the neighbouring container.
fn near_miss_sets(rng: &mut Rng, ds: &[SetD]) -> Vec<SetD> {
    let mut out = ds.to_vec();
    let donors: Vec<usize> = (0..ds.len()).filter(|i| !ds[*i].is_empty()).collect();
    if donors.is_empty() || ds.len() < 2 {
        if let Some(first) = out.first_mut() {
            first.insert(77);
        }
        return out;
    }
    let i = *rng.pick(&donors);
    let j = if i + 1 < ds.len() && (i == 0 || rng.pct(50)) { i + 1 } else { i - 1 };
    let x = *rng.pick(&ds[i].iter().copied().collect::<Vec<_>>());
    out[i].remove(&x);
    out[j].insert(x);
    out
}

pub fn containers_case(case: &mut Case) {
    let k = case.rng.range(1, 4);
    let d1: Vec<SetD> = (0..k).map(|_| gen_setd(&mut case.rng)).collect();
    let d2: Vec<SetD> = match case.rng.below(4) {
        0 => d1.clone(),
        1 | 2 => near_miss_sets(&mut case.rng, &d1),
        _ => (0..k).map(|_| gen_setd(&mut case.rng)).collect(),
    };
    let same = d1 == d2;
    case.distinct(hash_of(&(&d1, &d2)), k >= 2 && d1.iter().map(|s| s.len()).sum::<usize>() >= 1);
    case.sample(|| json!({"first": d1, "second": d2}));
    let wit = || json!({"first": d1, "second": d2});
    let b1: Vec<HashableHashSet<u8>> = d1.iter().map(|d| build_set(&mut case.rng.clone(), d)).collect();
    let mut r2 = case.rng.fork();
    let b2: Vec<HashableHashSet<u8>> = d2.iter().map(|d| build_set(&mut r2, d)).collect();
    // side by side in a Vec
    if !judge(case, "vec-of-hashable-sets", same, &b1, &b2, wit) {
        return;
    }
    // single sets
    if !judge(case, "hashable-set", d1[0] == d2[0], &b1[0], &b2[0], wit) {
        return;
    }
    // differently seeded std hasher: streams must agree with the default-hasher build
    let s1 = build_set_std_hasher(&mut r2, &d1[0]);
    let s2 = build_set_std_hasher(&mut r2, &d2[0]);
    if !judge(case, "hashable-set-std-hasher", d1[0] == d2[0], &s1, &s2, wit) {
        return;
    }
    if stream_of(&s1) != stream_of(&b1[0]) {
        case.violation("C04/split/hashable-set/hash-stream-depends-on-hasher-seed", wit());
        return;
    }
    if k >= 2 {
        // tuple, struct-like with a scalar in between, nested set of sets, map of sets, Timers
        let t1 = (b1[0].clone(), b1[1].clone());
        let t2 = (b2[0].clone(), b2[1].clone());
        if !judge(case, "tuple-of-hashable-sets", d1[..2] == d2[..2], &t1, &t2, wit) {
            return;
        }
        let x = case.rng.below(2) as u8;
        let u1 = (b1[0].clone(), x, b1[1].clone());
        let u2 = (b2[0].clone(), x, b2[1].clone());
        if !judge(case, "struct-of-hashable-sets", d1[..2] == d2[..2], &u1, &u2, wit) {
            return;
        }
        let n1: HashableHashSet<HashableHashSet<u8>> = b1.iter().cloned().collect();
        let n2: HashableHashSet<HashableHashSet<u8>> = b2.iter().cloned().collect();
        let nd1: BTreeSet<&SetD> = d1.iter().collect();
        let nd2: BTreeSet<&SetD> = d2.iter().collect();
        if !judge(case, "set-of-hashable-sets", nd1 == nd2, &n1, &n2, wit) {
            return;
        }
        let m1: HashableHashMap<u8, HashableHashSet<u8>> = b1.iter().cloned().enumerate().map(|(i, s)| (i as u8, s)).collect();
        let m2: HashableHashMap<u8, HashableHashSet<u8>> = b2.iter().cloned().enumerate().map(|(i, s)| (i as u8, s)).collect();
        if !judge(case, "map-of-hashable-sets", same, &m1, &m2, wit) {
            return;
        }
        let mk_timers = |ds: &[SetD], rng: &mut Rng| -> Vec<Timers<u8>> {
            ds.iter()
                .map(|d| {
                    let mut t = Timers::new();
                    let mut items: Vec<u8> = d.iter().copied().collect();
                    rng.shuffle(&mut items);
                    if rng.pct(30) {
                        t.set(99);
                    }
                    for x in items {
                        t.set(x);
                    }
                    t.cancel(&99);
                    t
                })
                .collect()
        };
        let tm1 = mk_timers(&d1, &mut r2);
        let tm2 = mk_timers(&d2, &mut r2);
        if !judge(case, "vec-of-timers", same, &tm1, &tm2, wit) {
            return;
        }
        let o1: Vec<Option<HashableHashSet<u8>>> = b1.iter().map(|s| if s.is_empty() { None } else { Some(s.clone()) }).collect();
        let o2: Vec<Option<HashableHashSet<u8>>> = b2.iter().map(|s| if s.is_empty() { None } else { Some(s.clone()) }).collect();
        if !judge(case, "vec-of-optional-sets", same, &o1, &o2, wit) {
            return;
        }
    }
}

pub fn maps_case(case: &mut Case) {
    let k = case.rng.range(1, 3);
    let d1: Vec<MapD> = (0..k).map(|_| gen_mapd(&mut case.rng)).collect();
    let mut d2 = d1.clone();
    match case.rng.below(5) {
        0 => {}
        1 => {
            // move one entry to the neighbour
            if k >= 2 {
                if let Some((key, v)) = d2[0].iter().next().map(|(k, v)| (*k, *v)) {
                    d2[0].remove(&key);
                    d2[1].insert(key, v);
                }
            }
        }
        2 => {
            // change one value
            if let Some(key) = d2[0].keys().next().copied() {
                *d2[0].get_mut(&key).unwrap() += 1;
            } else {
                d2[0].insert(1, 1);
            }
        }
        3 => {
            // swap the values of two keys
            let keys: Vec<u8> = d2[0].keys().copied().collect();
            if keys.len() >= 2 {
                let (a, b) = (d2[0][&keys[0]], d2[0][&keys[1]]);
                d2[0].insert(keys[0], b);
                d2[0].insert(keys[1], a);
            }
        }
        _ => d2 = (0..k).map(|_| gen_mapd(&mut case.rng)).collect(),
    }
    let same = d1 == d2;
    case.distinct(hash_of(&(&d1, &d2)), d1.iter().map(|m| m.len()).sum::<usize>() >= 2);
    case.sample(|| json!({"first": format!("{:?}", d1), "second": format!("{:?}", d2)}));
    let wit = || json!({"first": format!("{:?}", d1), "second": format!("{:?}", d2)});
    let mut r = case.rng.fork();
    let b1: Vec<HashableHashMap<u8, u8>> = d1.iter().map(|d| build_map(&mut r, d)).collect();
    let b2: Vec<HashableHashMap<u8, u8>> = d2.iter().map(|d| build_map(&mut r, d)).collect();
    if !judge(case, "vec-of-hashable-maps", same, &b1, &b2, wit) {
        return;
    }
    let _ = judge(case, "hashable-map", d1[0] == d2[0], &b1[0], &b2[0], wit);
}

// -- Network, clocks, dense maps, testers -------------------------------------------------------

pub fn concrete_net(rng: &mut Rng, n: &RNet) -> Network<Msg> {
    let mk = |e: &REnv| Envelope { src: Id::from(e.0), dst: Id::from(e.1), msg: e.2 };
    match n {
        RNet::Ordered(m) => {
            // flows may be interleaved in any order as long as each flow keeps its order
            let mut queues: Vec<Vec<REnv>> = m.iter().map(|((s, d), q)| q.iter().map(|x| (*s, *d, *x)).collect()).collect();
            let mut envs = Vec::new();
            while !queues.is_empty() {
                let i = rng.below(queues.len());
                envs.push(queues[i].remove(0));
                if queues[i].is_empty() {
                    queues.remove(i);
                }
            }
            Network::new_ordered(envs.iter().map(mk))
        }
        RNet::NonDup(m) => {
            let mut envs = Vec::new();
            for (e, c) in m {
                for _ in 0..*c {
                    envs.push(*e);
                }
            }
            rng.shuffle(&mut envs);
            Network::new_unordered_nonduplicating(envs.iter().map(mk))
        }
        RNet::Dup(s, last) => {
            let mut envs: Vec<REnv> = s.iter().copied().collect();
            rng.shuffle(&mut envs);
            if rng.pct(30) && !envs.is_empty() {
                envs.push(envs[0]); // sending twice does not change a duplicating network
            }
            Network::new_unordered_duplicating_with_last_msg(envs.iter().map(mk), last.as_ref().map(mk))
        }
    }
}

fn gen_rnet(rng: &mut Rng) -> RNet {
    let kind = *rng.pick(&[NetKind::Ordered, NetKind::NonDup, NetKind::Dup]);
    let mut n = RNet::new(kind);
    for _ in 0..rng.below(6) {
        n.send((rng.below(3), rng.below(3), rng.below(3) as u8));
    }
    if let RNet::Dup(_, last) = &mut n {
        if rng.pct(40) {
            *last = Some((rng.below(3), rng.below(3), rng.below(3) as u8));
        }
    }
    n
}

fn mutate_rnet(rng: &mut Rng, n: &RNet) -> RNet {
    let mut m = n.clone();
    match &mut m {
        RNet::Ordered(flows) => {
            // swap two different neighbours in a flow, or move the tail of one flow to another
            let keys: Vec<(usize, usize)> = flows.keys().copied().collect();
            if let Some(k) = keys.iter().find(|k| flows[*k].len() >= 2 && flows[*k][0] != flows[*k][1]) {
                flows.get_mut(k).unwrap().swap(0, 1);
            } else if let Some(k) = keys.first() {
                let x = flows.get_mut(k).unwrap().pop_back().unwrap();
                if flows[k].is_empty() {
                    flows.remove(k);
                }
                flows.entry(((k.0 + 1) % 3, k.1)).or_default().push_back(x);
            } else {
                m.send((0, 1, 0));
            }
        }
        RNet::NonDup(counts) => {
            if let Some(e) = counts.keys().next().copied() {
                if rng.pct(50) {
                    *counts.get_mut(&e).unwrap() += 1; // one more copy
                } else {
                    counts.remove(&e);
                    counts.insert((e.0, e.1, e.2 + 1), 1);
                }
            } else {
                m.send((0, 1, 0));
            }
        }
        RNet::Dup(set, last) => match rng.below(3) {
            0 => {
                *last = match last {
                    None => Some((0, 0, 0)),
                    Some(_) => None,
                }
            }
            1 => {
                if let Some(e) = set.iter().next().copied() {
                    set.remove(&e);
                    set.insert((e.1, e.0, e.2 + 1));
                } else {
                    set.insert((0, 1, 0));
                }
            }
            _ => {
                set.insert((2, 2, 9));
            }
        },
    }
    m
}

pub fn network_case(case: &mut Case) {
    let d1 = gen_rnet(&mut case.rng);
    let d2 = match case.rng.below(3) {
        0 => d1.clone(),
        1 => mutate_rnet(&mut case.rng, &d1),
        _ => gen_rnet(&mut case.rng),
    };
    case.distinct(hash_of(&(&d1, &d2)), d1.len() >= 2);
    case.sample(|| json!({"first": format!("{:?}", d1), "second": format!("{:?}", d2)}));
    let mut r = case.rng.fork();
    let (a, b) = (concrete_net(&mut r, &d1), concrete_net(&mut r, &d2));
    let wit = || json!({"first": format!("{:?}", d1), "second": format!("{:?}", d2)});
    let shape = match d1 {
        RNet::Ordered(_) => "network-ordered",
        RNet::NonDup(_) => "network-nonduplicating",
        RNet::Dup(..) => "network-duplicating",
    };
    let _ = judge(case, shape, d1 == d2, &a, &b, wit);
}

pub fn misc_case(case: &mut Case) {
    // vector clocks: identity up to trailing zeros
    let v: Vec<u32> = (0..case.rng.below(5)).map(|_| case.rng.below(3) as u32).collect();
    let mut w = v.clone();
    let same = match case.rng.below(3) {
        0 => {
            w.extend(std::iter::repeat(0).take(case.rng.range(1, 3)));
            true
        }
        1 => {
            w.push(1);
            false
        }
        _ => {
            if w.is_empty() {
                w.push(2);
            } else {
                let i = case.rng.below(w.len());
                w[i] += 1;
            }
            false
        }
    };
    let wit = || json!({"first": v, "second": w});
    case.distinct(hash_of(&(&v, &w)), v.len() >= 1);
    if !judge(case, "vector-clock", same, &VectorClock::from(v.clone()), &VectorClock::from(w.clone()), wit) {
        return;
    }
    // two clocks side by side: padding must not leak into the neighbour
    let pair1 = (VectorClock::from(v.clone()), VectorClock::from(vec![1]));
    let mut padded = v.clone();
    padded.push(0);
    let pair2 = (VectorClock::from(padded), VectorClock::from(vec![1, 0]));
    if !judge(case, "tuple-of-vector-clocks", true, &pair1, &pair2, wit) {
        return;
    }
    // dense maps
    let vals: Vec<u8> = (0..case.rng.below(5)).map(|_| case.rng.below(3) as u8).collect();
    let m1: DenseNatMap<Id, u8> = vals.iter().copied().collect();
    let mut pairs: Vec<(Id, u8)> = vals.iter().copied().enumerate().map(|(i, v)| (Id::from(i), v)).collect();
    case.rng.shuffle(&mut pairs);
    let m2: DenseNatMap<Id, u8> = pairs.into_iter().collect();
    if !judge(case, "dense-nat-map", true, &m1, &m2, || json!({"values": vals})) {
        return;
    }
    if !vals.is_empty() {
        let mut other = vals.clone();
        let i = case.rng.below(other.len());
        other[i] += 1;
        let m3: DenseNatMap<Id, u8> = other.iter().copied().collect();
        if !judge(case, "dense-nat-map", false, &m1, &m3, || json!({"values": vals, "other": other})) {
            return;
        }
    }
    // consistency testers: same events through different call paths are the same value; a
    // different operation or return value is a different value
    let h: History<Register<char>> = crate::hist::gen_random::<Register<char>>(&mut case.rng, 3, 8);
    if !crate::hist::well_formed(&h) {
        return;
    }
    fn build<T: ConsistencyTester<u8, Register<char>> + Clone>(mut t: T, h: &History<Register<char>>, rng: &mut Rng) -> T {
        let mut i = 0;
        while i < h.len() {
            if rng.pct(30) {
                t = t.clone(); // continue on a clone
            }
            match (&h[i], h.get(i + 1)) {
                (Ev::Inv(a, op), Some(Ev::Ret(b, ret))) if a == b && rng.pct(60) => {
                    let _ = t.on_invret(*a, op.clone(), ret.clone());
                    i += 2;
                    continue;
                }
                (Ev::Inv(a, op), _) => {
                    let _ = t.on_invoke(*a, op.clone());
                }
                (Ev::Ret(a, ret), _) => {
                    let _ = t.on_return(*a, ret.clone());
                }
            }
            i += 1;
        }
        t
    }
    let mut r = case.rng.fork();
    let hw = || json!({"history": format!("{:?}", h)});
    let l1 = build(LinearizabilityTester::new(Register('A')), &h, &mut r);
    let l2 = build(LinearizabilityTester::new(Register('A')), &h, &mut r);
    if !judge(case, "linearizability-tester", true, &l1, &l2, hw) {
        return;
    }
    let s1 = build(SequentialConsistencyTester::new(Register('A')), &h, &mut r);
    let s2 = build(SequentialConsistencyTester::new(Register('A')), &h, &mut r);
    if !judge(case, "sequential-consistency-tester", true, &s1, &s2, hw) {
        return;
    }
    // mutate one operation / return value
    let mut h2 = h.clone();
    let i = case.rng.below(h2.len());
    h2[i] = match &h2[i] {
        Ev::Inv(t, RegisterOp::Read) => Ev::Inv(*t, RegisterOp::Write('Q')),
        Ev::Inv(t, RegisterOp::Write(_)) => Ev::Inv(*t, RegisterOp::Read),
        Ev::Ret(t, RegisterRet::WriteOk) => Ev::Ret(*t, RegisterRet::ReadOk('Q')),
        Ev::Ret(t, RegisterRet::ReadOk(_)) => Ev::Ret(*t, RegisterRet::WriteOk),
    };
    let l3 = build(LinearizabilityTester::new(Register('A')), &h2, &mut r);
    let s3 = build(SequentialConsistencyTester::new(Register('A')), &h2, &mut r);
    let hw2 = || json!({"history": format!("{:?}", h), "mutated": format!("{:?}", h2)});
    if !judge(case, "linearizability-tester", false, &l1, &l3, hw2) {
        return;
    }
    let _ = judge(case, "sequential-consistency-tester", false, &s1, &s3, hw2);
    // a different initial object is a different tester
    let l4 = build(LinearizabilityTester::new(Register('B')), &h, &mut r);
    let _ = judge(case, "linearizability-tester", false, &l1, &l4, hw);
}

// -- actor-system states --------------------------------------------------------------------------

/// Rebuilds a real state from its description along a different construction path.
pub fn concrete_state(rng: &mut Rng, r: &RState) -> TModelState {
    TModelState {
        actor_states: r.actors.iter().map(|a| Arc::new(a.clone())).collect(),
        network: concrete_net(rng, &r.net),
        timers_set: r
            .timers
            .iter()
            .map(|ts| {
                let mut t = Timers::new();
                let mut items: Vec<u8> = ts.iter().copied().collect();
                rng.shuffle(&mut items);
                for x in items {
                    t.set(x);
                }
                t
            })
            .collect(),
        random_choices: r
            .randoms
            .iter()
            .map(|m| {
                let mut rc = RandomChoices::default();
                let mut items: Vec<(String, Vec<u8>)> = m.iter().map(|(k, v)| (k.clone(), v.clone())).collect();
                rng.shuffle(&mut items);
                if rng.pct(30) {
                    rc.insert("junk".to_string(), vec![1]);
                }
                for (k, v) in items {
                    rc.insert(k, v);
                }
                rc.remove(&"junk".to_string());
                rc
            })
            .collect(),
        crashed: r.crashed.clone(),
        history: r.history.clone(),
    }
}

/// Single-component mutants of a state description.
fn mutants(rng: &mut Rng, r: &RState) -> Vec<(&'static str, RState)> {
    let n = r.actors.len();
    let mut out = Vec::new();
    let i = rng.below(n);
    let j = (i + 1) % n;
    // crash flag
    let mut m = r.clone();
    m.crashed[i] = !m.crashed[i];
    out.push(("crash-flag-flipped", m));
    // a timer moved to the neighbouring actor / added
    let mut m = r.clone();
    if let Some(t) = m.timers[i].iter().next().copied() {
        if n >= 2 && !m.timers[j].contains(&t) {
            m.timers[i].remove(&t);
            m.timers[j].insert(t);
            out.push(("timer-moved-to-neighbouring-actor", m));
        } else {
            m.timers[i].remove(&t);
            out.push(("timer-removed", m));
        }
    } else {
        m.timers[i].insert(1);
        out.push(("timer-added", m));
    }
    // pending random choice dropped / added / altered / moved
    let mut m = r.clone();
    if let Some(k) = m.randoms[i].keys().next().cloned() {
        match rng.below(3) {
            0 => {
                m.randoms[i].remove(&k);
                out.push(("random-choice-dropped", m));
            }
            1 => {
                m.randoms[i].get_mut(&k).unwrap().push(7);
                out.push(("random-choice-options-changed", m));
            }
            _ => {
                if n >= 2 && !m.randoms[j].contains_key(&k) {
                    let v = m.randoms[i].remove(&k).unwrap();
                    m.randoms[j].insert(k, v);
                    out.push(("random-choice-moved-to-neighbouring-actor", m));
                }
            }
        }
    } else {
        m.randoms[i].insert("k0".into(), vec![0, 1]);
        out.push(("random-choice-added", m));
    }
    // network
    let mut m = r.clone();
    m.net = mutate_rnet(rng, &r.net);
    out.push(("in-flight-message-changed", m));
    // history
    let mut m = r.clone();
    m.history.push((0, 0, 0, 0));
    out.push(("history-extended", m));
    // local state
    let mut m = r.clone();
    m.actors[i].phase = m.actors[i].phase.wrapping_add(1);
    out.push(("actor-state-changed", m));
    if n >= 2 && r.actors[i] != r.actors[j] {
        let mut m = r.clone();
        m.actors.swap(i, j);
        out.push(("actor-states-swapped", m));
    }
    out
}

fn actor_states_case(case: &mut Case) {
    let sys = gen_system(&mut case.rng, &SysKnobs::default());
    let model = sys.model();
    case.sample(|| sys.to_json());
    // collect states along a few random walks
    let mut states: Vec<TModelState> = Vec::new();
    for _ in 0..3 {
        let mut s = model.init_states().into_iter().next().unwrap();
        states.push(s.clone());
        for _ in 0..12 {
            let steps = model.next_steps(&s);
            if steps.is_empty() {
                break;
            }
            let (_, next) = steps.into_iter().next().unwrap();
            s = next;
            states.push(s.clone());
        }
    }
    // the walk above always takes the first step; add random-choice walks too
    for _ in 0..3 {
        let mut s = model.init_states().into_iter().next().unwrap();
        for _ in 0..15 {
            let mut steps = model.next_steps(&s);
            if steps.is_empty() {
                break;
            }
            let i = case.rng.below(steps.len());
            s = steps.swap_remove(i).1;
            states.push(s.clone());
        }
    }
    // The description of a state is what can influence its future or a property: a key whose option list is
    // empty enables no choice and stands for "nothing pending under this key", exactly like an absent key
    // (Out::remove_random and choose_random(key, vec![]) both withdraw the choice).
    let keys: Vec<RState> = states
        .iter()
        .map(|s| {
            let mut k = abstract_state(s);
            for m in k.randoms.iter_mut() {
                m.retain(|_, v| !v.is_empty());
            }
            k
        })
        .collect();
    let distinct_keys: BTreeSet<&RState> = keys.iter().collect();
    case.distinct(sys.structural_hash(), distinct_keys.len() >= 4);
    case.add("actor_states_collected", states.len() as u64);
    let wit = |a: &RState, b: &RState| json!({"system": sys.to_json(), "first": rstate_json(a), "second": rstate_json(b)});
    // all pairs within the neighbourhood
    for i in 0..states.len() {
        for j in i..states.len().min(i + 12) {
            if !judge(case, "actor-state/reachable-pair", keys[i] == keys[j], &states[i], &states[j], || wit(&keys[i], &keys[j])) {
                return;
            }
        }
    }
    // rebuilt along another construction path, and single-component mutants
    let mut r = case.rng.fork();
    for (s, k) in states.iter().zip(keys.iter()).step_by(3) {
        let rebuilt = concrete_state(&mut r, k);
        if abstract_state(&rebuilt) != *k {
            // (a rebuilt state never holds an empty option list: the description has none)
            case.inconclusive("harness: rebuilt state does not have the intended description");
            return;
        }
        if !judge(case, "actor-state/rebuilt", true, s, &rebuilt, || wit(k, k)) {
            return;
        }
        for (what, mk) in mutants(&mut r, k) {
            if &mk == k {
                continue;
            }
            let ms = concrete_state(&mut r, &mk);
            case.add(&format!("mutant_{}", what), 1);
            if !judge(case, &format!("actor-state/{}", what), false, s, &ms, || wit(k, &mk)) {
                return;
            }
        }
    }
}

pub fn run(ctx: &mut Ctx) {
    ctx.rule = "Values built from structural descriptions along randomised construction paths (insertion order, \
        capacity, insert-then-remove junk, differently seeded hashers, trailing zeros, envelope order, clones). \
        Pairs: identical description / near miss (one element moved to the neighbouring container, one flag, \
        timer, pending choice, in-flight message, count or value changed) / unrelated. Shapes: HashableHashSet \
        and HashableHashMap alone, in Vec, tuple, struct-with-scalar-between, nested, Option; Timers; the three \
        Network kinds; VectorClock; DenseNatMap; both consistency testers; ActorModelState collected along walks \
        of G2 systems (all neighbouring pairs, rebuilt copies, 8 kinds of single-component mutants). Judged: \
        description equality <=> == <=> identical hash byte stream; equal => same fingerprint. Non-trivial: >= 2 \
        containers with >= 1 element / >= 4 distinct reachable actor-system states. The description of a reachable state leaves out random-choice keys \
        with an empty option list (nothing can be selected: same as no key)."
        .into();
    ctx.assumptions = vec![
        "PartialOrd of the hashable containers (by hash) is not part of the property".into(),
        "the duplicating network's last-delivered marker is a genuine component of identity (public, documented)".into(),
    ];
    let ctx = &*ctx;
    ctx.cases("containers", ctx.n(30000, 2000000), 0, containers_case);
    ctx.cases("maps", ctx.n(20000, 1000000), 0, maps_case);
    ctx.cases("networks", ctx.n(20000, 1000000), 0, network_case);
    ctx.cases("clocks_densemaps_testers", ctx.n(10000, 400000), 0, misc_case);
    ctx.cases("actor_states", ctx.n(1500, 25000), 0, actor_states_case);
    if !ctx.quick() && !ctx.is_replay() && std::env::var_os("SVMON_LANE").is_none() {
        crate::checks::c05::miri_smoke_lane(ctx, "c04", "C04");
    }
}
