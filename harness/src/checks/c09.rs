//! C09 — crash faults: every allowed crash point is explored; crashed actors stay silent.

use crate::checks::c06::{net_name, Lockstep};
use crate::ctx::{guarded, Case, Ctx};
use crate::tables::*;
use serde_json::json;
use stateright::{Checker, Model, Path};
use std::collections::{BTreeSet, VecDeque};
use std::sync::{Arc, Mutex};
use std::time::{Duration, Instant};

/// Reference reachable set (within the boundary), capped.
fn reference_reachable(sys: &System, cap: usize) -> Option<BTreeSet<RState>> {
    let reference = Reference::new(sys);
    let init = reference.init();
    let mut seen = BTreeSet::new();
    if !reference.within_boundary(&init) {
        return Some(seen);
    }
    let mut q = VecDeque::new();
    seen.insert(init.clone());
    q.push_back(init);
    while let Some(st) = q.pop_front() {
        for (_, next) in reference.transitions(&st) {
            if reference.within_boundary(&next) && seen.insert(next.clone()) {
                if seen.len() > cap {
                    return None;
                }
                q.push_back(next);
            }
        }
    }
    Some(seen)
}

/// Direct statements of the property at one real state, independent of the reference.
fn silent_after_crash(case: &Case, sys: &System, model: &TModel, s: &TModelState, trace: &[RAct]) -> bool {
    let n = sys.actors.len();
    let wit = |what: &str| json!({"system": sys.to_json(), "trace": trace.iter().map(|a| format!("{:?}", a)).collect::<Vec<_>>(), "what": what});
    let sig = |what: &str| format!("C09/{}/{}", net_name(sys.kind), what);
    let down = s.crashed.iter().filter(|c| **c).count();
    let mut actions = Vec::new();
    model.actions(s, &mut actions);
    let offered_crashes: BTreeSet<usize> = actions
        .iter()
        .filter_map(|a| if let RAct::Crash(i) = abstract_action(a) { Some(i) } else { None })
        .collect();
    let expected_crashes: BTreeSet<usize> = if down < sys.max_crashes { (0..n).filter(|i| !s.crashed[*i]).collect() } else { BTreeSet::new() };
    case.add("crash_points_examined", 1);
    if offered_crashes != expected_crashes {
        let what = if offered_crashes.len() < expected_crashes.len() { "crash-not-offered-although-budget-allows" } else { "crash-offered-beyond-budget-or-for-crashed-actor" };
        case.violation(&sig(what), wit(&format!("offered {:?}, expected {:?}", offered_crashes, expected_crashes)));
        return false;
    }
    for i in 0..n {
        if !s.crashed[i] {
            continue;
        }
        if s.timers_set[i].iter().next().is_some() || !s.random_choices[i].map.is_empty() {
            case.violation(&sig("crashed-actor-keeps-timers-or-choices"), wit(&format!("actor {}", i)));
            return false;
        }
    }
    for a in actions {
        let ra = abstract_action(&a);
        let target = match &ra {
            RAct::Deliver(_, d, _) => Some(*d),
            RAct::Timeout(i, _) | RAct::Select(i, _, _) => Some(*i),
            _ => None,
        };
        if let Some(t) = target {
            if t < n && s.crashed[t] && model.next_state(s, a).is_some() {
                case.violation(&sig("crashed-actor-takes-a-step"), wit(&format!("{:?}", ra)));
                return false;
            }
        }
    }
    true
}

fn crash_injection_case(case: &mut Case, knobs: &SysKnobs) {
    let mut sys = gen_system(&mut case.rng, knobs);
    sys.max_crashes = case.rng.range(1, sys.actors.len());
    let model = sys.model();
    let ls = Lockstep::new("C09", &sys, &model);
    case.sample(|| sys.to_json());
    // base walk
    let mut rng = case.rng.fork();
    let Some((base, _)) = ls.walk(case, &mut rng, 25) else {
        case.distinct(sys.structural_hash(), true);
        return;
    };
    // re-execute the base walk; at every prefix inject a crash of every actor that is up
    let Some((mut s, mut r)) = ls.init(case) else { return };
    let mut injected = 0;
    let mut mail_kept = 0;
    for p in 0..=base.len() {
        if !silent_after_crash(case, &sys, &model, &s, &base[..p]) {
            return;
        }
        let down = s.crashed.iter().filter(|c| **c).count();
        if down < sys.max_crashes {
            for i in 0..sys.actors.len() {
                if s.crashed[i] {
                    continue;
                }
                injected += 1;
                let mut trace: Vec<RAct> = base[..p].to_vec();
                trace.push(RAct::Crash(i));
                let Some(mut cs) = model.next_state(&s, concrete_action(&RAct::Crash(i))) else {
                    case.violation(&format!("C09/{}/crash-yields-no-successor", net_name(sys.kind)), json!({"system": sys.to_json(), "trace": format!("{:?}", trace)}));
                    return;
                };
                let mut cr = ls.reference.step(&r, &RAct::Crash(i)).unwrap();
                // continue for a few hostile steps after the crash
                let mail_before: Vec<REnv> = cr.net.all().into_iter().filter(|e| e.1 == i).collect();
                for _ in 0..6 {
                    let Some(transitions) = ls.compare_at(case, &trace, &cs, &cr) else { return };
                    if !silent_after_crash(case, &sys, &model, &cs, &trace) {
                        return;
                    }
                    // prefer non-drop steps so that mail to the crashed actor can be observed to stay
                    let candidates: Vec<_> = transitions.iter().filter(|(a, _)| !matches!(abstract_action(a), RAct::Drop(..))).collect();
                    if candidates.is_empty() {
                        break;
                    }
                    let (a, next) = (*case.rng.pick(&candidates)).clone();
                    let ra = abstract_action(&a);
                    cr = ls.reference.step(&cr, &ra).unwrap();
                    cs = next;
                    trace.push(ra);
                }
                // mail addressed to the crashed actor stays undelivered (no drops were taken)
                let mail_after: Vec<REnv> = abstract_net(&cs.network).all().into_iter().filter(|e| e.1 == i).collect();
                let still = mail_before.iter().all(|e| mail_after.iter().filter(|x| *x == e).count() >= mail_before.iter().filter(|x| *x == e).count());
                if !mail_before.is_empty() {
                    mail_kept += 1;
                }
                if !still {
                    case.violation(
                        &format!("C09/{}/mail-to-crashed-actor-disappears-without-drop", net_name(sys.kind)),
                        json!({"system": sys.to_json(), "trace": format!("{:?}", trace), "before": mail_before, "after": mail_after}),
                    );
                    return;
                }
            }
        }
        if p < base.len() {
            let Some(next) = model.next_state(&s, concrete_action(&base[p])) else {
                case.inconclusive("base walk could not be re-executed");
                return;
            };
            s = next;
            r = ls.reference.step(&r, &base[p]).unwrap();
        }
    }
    case.add("crashes_injected", injected);
    case.add("injections_with_pending_mail", mail_kept);
    case.distinct(sys.structural_hash(), injected >= 3 && base.len() >= 3);
}

fn explored_case(case: &mut Case, knobs: &SysKnobs) {
    let mut sys = gen_system(&mut case.rng, knobs);
    sys.max_crashes = case.rng.range(0, sys.actors.len());
    sys.cfg.net_bound = case.rng.range(1, 3);
    sys.cfg.hist_bound = sys.cfg.hist_bound.min(2);
    let Some(expected) = reference_reachable(&sys, 6000) else {
        case.distinct(sys.structural_hash(), false);
        case.add("systems_skipped_too_large", 1);
        return;
    };
    case.sample(|| sys.to_json());
    let crash_configs: BTreeSet<Vec<bool>> = expected.iter().map(|s| s.crashed.clone()).collect();
    case.distinct(sys.structural_hash(), expected.len() >= 3 && crash_configs.len() >= 2);
    case.add("reference_states", expected.len() as u64);
    case.add("crash_configurations_expected", crash_configs.len() as u64);
    for strategy in ["bfs", "dfs"] {
        let threads = *case.rng.pick(&[1usize, 2, 4]);
        let seen: Arc<Mutex<Vec<RState>>> = Arc::new(Mutex::new(Vec::new()));
        let seen2 = seen.clone();
        let visitor = move |p: Path<TModelState, TAction>| {
            seen2.lock().unwrap().push(abstract_state(p.last_state()));
        };
        // a keep-alive property so that the run is exhaustive
        let model = sys.model().property(stateright::Expectation::Always, "keepalive", |_, _| true);
        let builder = model.checker().threads(threads).visitor(visitor);
        let result = guarded(|| {
            let mut c: Box<dyn FnMut() -> (usize, bool)> = match strategy {
                "bfs" => {
                    let mut ch = builder.spawn_bfs();
                    let hs = ch.handles();
                    Box::new(move || {
                        let _ = &hs;
                        { let done = hs.iter().all(|h| h.is_finished()); (ch.unique_state_count(), done) }
                    })
                }
                _ => {
                    let mut ch = builder.spawn_dfs();
                    let hs = ch.handles();
                    Box::new(move || {
                        let _ = &hs;
                        { let done = hs.iter().all(|h| h.is_finished()); (ch.unique_state_count(), done) }
                    })
                }
            };
            let t = Instant::now();
            loop {
                let (unique, done) = c();
                if done {
                    return Some(unique);
                }
                if t.elapsed() > Duration::from_secs(60) {
                    return None;
                }
                std::thread::sleep(Duration::from_micros(300));
            }
        });
        let unique = match result {
            Ok(Some(u)) => u,
            Ok(None) => {
                case.inconclusive("checker did not finish within the watchdog");
                return;
            }
            Err(msg) => {
                case.violation(&format!("C09/{}/{}/checker-panicked", net_name(sys.kind), strategy), json!({"system": sys.to_json(), "panic": msg}));
                return;
            }
        };
        case.add(&format!("checker_runs_{}", strategy), 1);
        let visited: Vec<RState> = std::mem::take(&mut *seen.lock().unwrap());
        let visited_set: BTreeSet<RState> = visited.iter().cloned().collect();
        let wit = || json!({"system": sys.to_json(), "strategy": strategy, "threads": threads, "unique_state_count": unique,
                            "visited_distinct": visited_set.len(), "reference_reachable": expected.len()});
        if let Some(missing) = expected.iter().find(|s| !visited_set.contains(*s)) {
            let what = if missing.crashed.iter().any(|c| *c) { "crashed-configuration-not-explored-as-a-distinct-state" } else { "reachable-state-not-explored" };
            case.violation(&format!("C09/{}/{}/{}", net_name(sys.kind), strategy, what), json!({"run": wit(), "missing": rstate_json(missing)}));
            return;
        }
        if let Some(extra) = visited_set.iter().find(|s| !expected.contains(*s)) {
            case.violation(&format!("C09/{}/{}/state-explored-that-the-reference-cannot-reach", net_name(sys.kind), strategy), json!({"run": wit(), "extra": rstate_json(extra)}));
            return;
        }
        if unique != expected.len() || visited.len() != expected.len() {
            case.violation(&format!("C09/{}/{}/unique-state-count-differs-from-distinct-configurations", net_name(sys.kind), strategy), wit());
            return;
        }
    }
}

pub fn run(ctx: &mut Ctx) {
    ctx.level = "fault_enumeration";
    ctx.rule = "G2 systems with crash budgets 0..n on all network kinds. (inject) a hostile base walk of <= 25 steps is \
        recorded; at EVERY prefix a crash of EVERY up actor is injected (fault enumeration over the recorded \
        execution; the base walks are sampled), the crash successor and 6 further steps are compared with the \
        reference, and direct assertions are made at each state: crash offered iff budget allows, crashed actors \
        have no timers/choices and take no step, mail addressed to them stays. (explore) bounded systems are \
        checked exhaustively by the real BFS and DFS (1-4 threads); the visited states, compared by a key that \
        includes crash flags, pending choices and timers, must equal the reference reachable set and \
        unique_state_count its size. Non-trivial: >= 3 crashes injected into a walk of >= 3 steps / >= 3 \
        reachable states with >= 2 distinct crash configurations."
        .into();
    ctx.assumptions = vec!["reference reachable sets above 6000 states are skipped (counted, not judged)".into()];
    let ctx = &*ctx;
    let knobs = SysKnobs::default();
    ctx.cases("inject", ctx.n(1500, 25000), 0, |case| crash_injection_case(case, &knobs));
    ctx.cases("explore", ctx.n(700, 12000), 0, |case| explored_case(case, &knobs));
}
