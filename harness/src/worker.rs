//! Isolated scenario subprocesses: scenarios that may hang or that start threads which never end
//! run in `svmon --worker ...` so that they can be abandoned.

use std::io::Read;
use std::process::{Command, Stdio};
use std::time::{Duration, Instant};

pub struct WorkerOut {
    pub stdout: String,
    pub exit_code: Option<i32>,
    pub killed: bool,
    pub elapsed: Duration,
}

/// Runs `svmon --worker <args>` with a wall-clock limit; kills it on expiry.
pub fn run_worker(args: &[String], limit: Duration) -> WorkerOut {
    let exe = std::env::current_exe().expect("current_exe");
    let start = Instant::now();
    let mut child = Command::new(exe)
        .arg("--worker")
        .args(args)
        .stdin(Stdio::null())
        .stdout(Stdio::piped())
        .stderr(Stdio::null())
        .spawn()
        .expect("spawn worker");
    let mut stdout = child.stdout.take().unwrap();
    let reader = std::thread::spawn(move || {
        let mut s = String::new();
        let _ = stdout.read_to_string(&mut s);
        s
    });
    let mut killed = false;
    let exit_code = loop {
        match child.try_wait() {
            Ok(Some(status)) => break status.code(),
            Ok(None) => {}
            Err(_) => break None,
        }
        if start.elapsed() > limit {
            let _ = child.kill();
            let _ = child.wait();
            killed = true;
            break None;
        }
        std::thread::sleep(Duration::from_millis(5));
    };
    let stdout = reader.join().unwrap_or_default();
    WorkerOut {
        stdout,
        exit_code,
        killed,
        elapsed: start.elapsed(),
    }
}

/// The last line of the worker's output that parses as JSON.
pub fn last_json(out: &WorkerOut) -> Option<serde_json::Value> {
    out.stdout
        .lines()
        .rev()
        .find_map(|l| serde_json::from_str::<serde_json::Value>(l.trim()).ok())
}
