//! Runs the real checkers on graph models and collects everything observable at the API.

use crate::ctx::guarded;
use crate::graph::*;
use stateright::{Checker, CheckerBuilder, HasDiscoveries, Model, UniformChooser};
use std::collections::BTreeMap;
use std::time::{Duration, Instant};

#[derive(Clone, Copy, Debug, PartialEq, Eq, Hash)]
pub enum Strategy {
    Bfs,
    Dfs,
    OnDemand,
    Simulation(u64),
}

impl Strategy {
    pub fn name(&self) -> &'static str {
        match self {
            Strategy::Bfs => "bfs",
            Strategy::Dfs => "dfs",
            Strategy::OnDemand => "on_demand",
            Strategy::Simulation(_) => "simulation",
        }
    }
    pub fn exhaustive(&self) -> bool {
        !matches!(self, Strategy::Simulation(_))
    }
}

#[derive(Clone, Debug)]
pub struct RunCfg {
    pub threads: usize,
    pub finish_when: Option<HasDiscoveries>,
    pub target_state_count: Option<usize>,
    pub target_max_depth: Option<usize>,
    pub timeout: Option<Duration>,
    /// 0 = none, 1 = full paths, 2 = last states only
    pub visitor: u8,
    /// Wall-clock watchdog for the whole run; expiry is *inconclusive*, never a violation.
    pub watchdog: Duration,
}

impl Default for RunCfg {
    fn default() -> Self {
        RunCfg {
            threads: 1,
            finish_when: None,
            target_state_count: None,
            target_max_depth: None,
            timeout: None,
            visitor: 1,
            watchdog: Duration::from_secs(60),
        }
    }
}

#[derive(Debug, Default)]
pub struct RunOut {
    pub finished: bool,
    /// Only the on-demand forwarder thread kept `join` from returning.
    pub only_forwarder_alive: bool,
    pub worker_panics: Vec<String>,
    pub visits: Vec<PathVec>,
    pub visited_states: Vec<u32>,
    pub discoveries: BTreeMap<&'static str, PathVec>,
    pub discoveries_panic: Option<String>,
    pub unique: usize,
    pub state_count: usize,
    pub max_depth: usize,
    pub is_done: bool,
    pub assert_properties_ok: Option<bool>,
    /// Per property (when asserts were requested): what the `Checker` helper methods said.
    pub helpers: Vec<HelperView>,
    pub elapsed: Duration,
}

/// The verdict of one property as the `Checker` trait's helper methods present it.
#[derive(Debug, Clone)]
pub struct HelperView {
    pub name: &'static str,
    /// `discovery(name)` as a state path.
    pub discovery: Option<PathVec>,
    pub assert_any_discovery_ok: bool,
    pub assert_no_discovery_ok: bool,
    /// `assert_discovery(name, <actions of the reported path>)`; `None` if nothing was reported.
    pub assert_discovery_of_reported_path_ok: Option<bool>,
    /// `assert_discovery(name, [])` (the empty action list denotes the initial states).
    pub assert_discovery_of_empty_path_ok: bool,
}

pub fn builder(model: GraphModel, cfg: &RunCfg, log: &VisitLog, slog: &StateLog) -> CheckerBuilder<GraphModel> {
    let mut b = model.checker().threads(cfg.threads);
    if let Some(f) = &cfg.finish_when {
        b = b.finish_when(f.clone());
    }
    if let Some(t) = cfg.target_state_count {
        b = b.target_state_count(t);
    }
    if let Some(d) = cfg.target_max_depth {
        b = b.target_max_depth(d);
    }
    if let Some(t) = cfg.timeout {
        b = b.timeout(t);
    }
    match cfg.visitor {
        1 => b = b.visitor(log.clone()),
        2 => b = b.visitor(slog.clone()),
        _ => {}
    }
    b
}

/// Waits for the worker threads with a watchdog; never blocks forever.
fn wait<C: Checker<GraphModel>>(
    checker: &mut C,
    _strategy: Strategy,
    watchdog: Duration,
    out: &mut RunOut,
) {
    let start = Instant::now();
    let mut handles: Vec<Option<std::thread::JoinHandle<()>>> =
        checker.handles().into_iter().map(Some).collect();
    loop {
        let mut alive = Vec::new();
        for (i, slot) in handles.iter_mut().enumerate() {
            if let Some(h) = slot {
                if h.is_finished() {
                    let h = slot.take().unwrap();
                    if h.join().is_err() {
                        out.worker_panics
                            .push(crate::ctx::take_last_panic().unwrap_or_else(|| "panic".into()));
                    }
                } else {
                    alive.push(i);
                }
            }
        }
        if alive.is_empty() {
            out.finished = true;
            break;
        }
        if start.elapsed() > watchdog {
            break;
        }
        std::thread::sleep(Duration::from_micros(200));
    }
}

fn collect<C: Checker<GraphModel>>(checker: &C, out: &mut RunOut, want_assert: bool) {
    out.unique = checker.unique_state_count();
    out.state_count = checker.state_count();
    out.max_depth = checker.max_depth();
    out.is_done = checker.is_done();
    match guarded(|| checker.discoveries()) {
        Ok(d) => {
            for (name, path) in d {
                out.discoveries.insert(name, path.into_vec());
            }
        }
        Err(msg) => out.discoveries_panic = Some(msg),
    }
    if want_assert {
        out.assert_properties_ok = Some(guarded(|| checker.assert_properties()).is_ok());
        for p in checker.model().properties() {
            let name = p.name;
            let discovery = guarded(|| checker.discovery(name)).ok().flatten();
            let reported_actions = discovery.clone().map(|d| d.into_actions());
            out.helpers.push(HelperView {
                name,
                discovery: discovery.map(|d| d.into_vec()),
                assert_any_discovery_ok: guarded(|| checker.assert_any_discovery(name)).is_ok(),
                assert_no_discovery_ok: guarded(|| checker.assert_no_discovery(name)).is_ok(),
                assert_discovery_of_reported_path_ok: reported_actions.map(|a| guarded(|| checker.assert_discovery(name, a)).is_ok()),
                assert_discovery_of_empty_path_ok: guarded(|| checker.assert_discovery(name, Vec::new())).is_ok(),
            });
        }
    }
}

pub fn run_checker(model: &GraphModel, strategy: Strategy, cfg: &RunCfg, want_assert: bool) -> RunOut {
    let log = VisitLog::default();
    let slog = StateLog::default();
    let b = builder(model.clone(), cfg, &log, &slog);
    let mut out = RunOut::default();
    let start = Instant::now();
    match strategy {
        Strategy::Bfs => {
            let mut c = b.spawn_bfs();
            wait(&mut c, strategy, cfg.watchdog, &mut out);
            out.elapsed = start.elapsed();
            collect(&c, &mut out, want_assert);
        }
        Strategy::Dfs => {
            let mut c = b.spawn_dfs();
            wait(&mut c, strategy, cfg.watchdog, &mut out);
            out.elapsed = start.elapsed();
            collect(&c, &mut out, want_assert);
        }
        Strategy::OnDemand => {
            let mut c = b.spawn_on_demand();
            c.run_to_completion();
            wait(&mut c, strategy, cfg.watchdog, &mut out);
            out.elapsed = start.elapsed();
            collect(&c, &mut out, want_assert);
        }
        Strategy::Simulation(seed) => {
            let mut c = b.spawn_simulation(seed, UniformChooser);
            wait(&mut c, strategy, cfg.watchdog, &mut out);
            out.elapsed = start.elapsed();
            collect(&c, &mut out, want_assert);
        }
    }
    out.visits = log.take();
    out.visited_states = if cfg.visitor == 2 {
        slog.take()
    } else {
        out.visits.iter().map(|p| p.last().unwrap().0).collect()
    };
    out
}

/// The on-demand checker driven step by step before it is told to run to completion: up to
/// `max_requests` `check_fingerprint` requests for generated-but-unevaluated states, following
/// the graph (preferring the most recently generated state, i.e. going down a branch first).
/// Each request waits (bounded) until the visitor has been shown the requested state.
pub fn run_on_demand_stepwise(model: &GraphModel, cfg: &RunCfg, rng: &mut crate::rng::Rng, max_requests: usize, want_assert: bool) -> RunOut {
    run_on_demand_requests(model, cfg, rng, max_requests, None, want_assert)
}

/// As `run_on_demand_stepwise`, optionally with a prescribed request order (states that are not
/// pending when their turn comes are skipped).
pub fn run_on_demand_requests(model: &GraphModel, cfg: &RunCfg, rng: &mut crate::rng::Rng, max_requests: usize, order: Option<&[u32]>, want_assert: bool) -> RunOut {
    let log = VisitLog::default();
    let slog = StateLog::default();
    let mut cfg2 = cfg.clone();
    cfg2.visitor = 1;
    let b = builder(model.clone(), &cfg2, &log, &slog);
    let mut out = RunOut::default();
    let start = Instant::now();
    let mut c = b.spawn_on_demand();
    let mut frontier: Vec<u32> = model.inits.iter().copied().filter(|s| model.inb[*s as usize]).collect();
    let mut generated: std::collections::BTreeSet<u32> = frontier.iter().copied().collect();
    let mut turn = 0usize;
    'steps: for _ in 0..max_requests {
        if frontier.is_empty() {
            break;
        }
        let i = match order {
            Some(order) => {
                let mut found = None;
                while turn < order.len() && found.is_none() {
                    found = frontier.iter().position(|x| *x == order[turn]);
                    turn += 1;
                }
                match found {
                    Some(i) => i,
                    None => break,
                }
            }
            None => {
                if rng.pct(70) {
                    frontier.len() - 1
                } else {
                    rng.below(frontier.len())
                }
            }
        };
        let s = frontier.remove(i);
        let Some(fp) = std::num::NonZeroU64::new(stateright::verif::fingerprint_of(&s)) else { break };
        c.check_fingerprint(fp);
        let t = Instant::now();
        loop {
            if log.0.lock().unwrap().iter().any(|p| p.last().map(|x| x.0) == Some(s)) {
                break;
            }
            if t.elapsed() > Duration::from_millis(300) {
                break 'steps; // the workers may have stopped already (everything discovered)
            }
            std::thread::sleep(Duration::from_micros(100));
        }
        for e in &model.out[s as usize] {
            if let Some(t) = e {
                if model.inb[*t as usize] && generated.insert(*t) {
                    frontier.push(*t);
                }
            }
        }
    }
    c.run_to_completion();
    wait(&mut c, Strategy::OnDemand, cfg.watchdog, &mut out);
    out.elapsed = start.elapsed();
    collect(&c, &mut out, want_assert);
    out.visits = log.take();
    out.visited_states = out.visits.iter().map(|p| p.last().unwrap().0).collect();
    out
}

/// Same with symmetry reduction (DFS only) through a representative function.
pub fn run_dfs_symmetry(
    model: &GraphModel,
    representative: fn(&u32) -> u32,
    cfg: &RunCfg,
    want_assert: bool,
) -> RunOut {
    let log = VisitLog::default();
    let slog = StateLog::default();
    let b = builder(model.clone(), cfg, &log, &slog).symmetry_fn(representative);
    let mut out = RunOut::default();
    let start = Instant::now();
    let mut c = b.spawn_dfs();
    wait(&mut c, Strategy::Dfs, cfg.watchdog, &mut out);
    out.elapsed = start.elapsed();
    collect(&c, &mut out, want_assert);
    out.visits = log.take();
    out.visited_states = out.visits.iter().map(|p| p.last().unwrap().0).collect();
    out
}

/// Simulation with symmetry reduction through a representative function.
pub fn run_simulation_symmetry(model: &GraphModel, representative: fn(&u32) -> u32, seed: u64, cfg: &RunCfg) -> RunOut {
    let log = VisitLog::default();
    let slog = StateLog::default();
    let b = builder(model.clone(), cfg, &log, &slog).symmetry_fn(representative);
    let mut out = RunOut::default();
    let start = Instant::now();
    let mut c = b.spawn_simulation(seed, UniformChooser);
    wait(&mut c, Strategy::Simulation(seed), cfg.watchdog, &mut out);
    out.elapsed = start.elapsed();
    collect(&c, &mut out, false);
    out.visits = log.take();
    out.visited_states = if cfg.visitor == 2 { slog.take() } else { out.visits.iter().map(|p| p.last().unwrap().0).collect() };
    out
}

#[allow(dead_code)]
pub fn model_of(g: GraphData) -> GraphModel {
    GraphModel(std::sync::Arc::new(g))
}

#[allow(dead_code)]
pub fn touch<M: Model>(_: &M) {}
