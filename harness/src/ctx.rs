//! Run context: case scheduling, three-valued verdicts, known findings, replay files, evidence.

use crate::rng::{mix, str_hash, Rng};
use serde_json::{json, Map, Value};
use std::cell::RefCell;
use std::collections::{BTreeMap, HashSet};
use std::panic::{catch_unwind, AssertUnwindSafe};
use std::path::PathBuf;
use std::sync::atomic::{AtomicU64, Ordering};
use std::sync::Mutex;
use std::time::{Duration, Instant};

#[derive(Clone, Copy, Debug, PartialEq, Eq)]
pub enum Tier {
    Quick,
    Thorough,
}

#[derive(Default)]
struct Sub {
    cases: u64,
    held: u64,
    violated: u64,
    inconclusive: u64,
    nontrivial: HashSet<u64>,
    seen: HashSet<u64>,
    note: String,
}

#[derive(Default)]
struct Inner {
    subs: BTreeMap<String, Sub>,
    counters: BTreeMap<String, u64>,
    sets: BTreeMap<String, HashSet<u64>>,
    violations: Vec<(String, String, u64, Value)>, // (sub, signature, k, witness)
    violation_count: u64,
    known_seen: BTreeMap<String, u64>,
    inconclusive: Vec<(String, String)>,
    samples: Vec<Value>,
    sample_subs: BTreeMap<String, usize>,
    info: Map<String, Value>,
}

pub struct Known {
    pub signature: String,
    pub what: String,
}

pub struct Ctx {
    pub id: String,
    pub tier: Tier,
    pub seed: u64,
    pub level: &'static str,
    pub rule: String,
    pub assumptions: Vec<String>,
    pub verif_dir: PathBuf,
    pub threads: usize,
    start: Instant,
    deadline: Instant,
    replay: Option<(String, u64)>,
    known: Vec<Known>,
    inner: Mutex<Inner>,
}

thread_local! {
    static LAST_PANIC: RefCell<Option<String>> = const { RefCell::new(None) };
}

pub fn install_quiet_panic_hook() {
    std::panic::set_hook(Box::new(|info| {
        let msg = if let Some(s) = info.payload().downcast_ref::<&str>() {
            (*s).to_string()
        } else if let Some(s) = info.payload().downcast_ref::<String>() {
            s.clone()
        } else {
            "<non-string panic>".to_string()
        };
        let loc = info
            .location()
            .map(|l| format!("{}:{}", l.file(), l.line()))
            .unwrap_or_default();
        let first = msg.lines().find(|l| !l.trim().is_empty()).unwrap_or("").trim();
        let text = format!("{} @ {}", first, loc);
        if std::env::var_os("SVMON_SHOW_PANICS").is_some() {
            eprintln!("[panic] {}", text);
        }
        LAST_PANIC.with(|p| *p.borrow_mut() = Some(text));
    }));
}

pub fn take_last_panic() -> Option<String> {
    LAST_PANIC.with(|p| p.borrow_mut().take())
}

/// Runs `f`, converting a panic into `Err(message)`.
pub fn guarded<T>(f: impl FnOnce() -> T) -> Result<T, String> {
    match catch_unwind(AssertUnwindSafe(f)) {
        Ok(v) => Ok(v),
        Err(payload) => {
            let from_hook = take_last_panic();
            let msg = if let Some(s) = payload.downcast_ref::<&str>() {
                (*s).to_string()
            } else if let Some(s) = payload.downcast_ref::<String>() {
                s.clone()
            } else {
                "<non-string panic>".to_string()
            };
            let first = msg.lines().find(|l| !l.trim().is_empty()).unwrap_or("").trim().to_string();
            Err(from_hook.unwrap_or(first))
        }
    }
}

pub struct Case<'a> {
    pub ctx: &'a Ctx,
    pub sub: &'a str,
    pub k: u64,
    pub rng: Rng,
    outcome: RefCell<u8>, // 0 held, 1 violated, 2 inconclusive
}

impl<'a> Case<'a> {
    /// Registers the structural hash of the generated input and whether it is non-trivial.
    pub fn distinct(&self, hash: u64, nontrivial: bool) {
        let mut inner = self.ctx.inner.lock().unwrap();
        let sub = inner.subs.entry(self.sub.to_string()).or_default();
        sub.seen.insert(hash);
        if nontrivial {
            sub.nontrivial.insert(hash);
        }
    }

    pub fn violation(&self, signature: &str, witness: Value) {
        *self.outcome.borrow_mut() = 1;
        self.ctx.violation(self.sub, signature, self.k, witness);
    }

    pub fn inconclusive(&self, reason: &str) {
        if *self.outcome.borrow() == 0 {
            *self.outcome.borrow_mut() = 2;
        }
        let mut inner = self.ctx.inner.lock().unwrap();
        if inner.inconclusive.len() < 50 {
            inner
                .inconclusive
                .push((self.sub.to_string(), format!("k={} {}", self.k, reason)));
        }
    }

    pub fn sample(&self, value: impl FnOnce() -> Value) {
        self.ctx.sample(self.sub, value);
    }

    pub fn add(&self, counter: &str, n: u64) {
        self.ctx.add(counter, n);
    }
}

impl Ctx {
    pub fn new(id: &str, tier: Tier, seed: u64, replay: Option<(String, u64)>) -> Ctx {
        let verif_dir = std::env::var_os("VERIF_DIR")
            .map(PathBuf::from)
            .unwrap_or_else(|| PathBuf::from("/verif"));
        let known = load_known(&verif_dir, id);
        let budget = match tier {
            Tier::Quick => 150,
            Tier::Thorough => 3000,
        };
        let budget = std::env::var("SVMON_BUDGET_S")
            .ok()
            .and_then(|s| s.parse().ok())
            .unwrap_or(budget);
        let threads = std::env::var("SVMON_THREADS")
            .ok()
            .and_then(|s| s.parse().ok())
            .unwrap_or(16);
        Ctx {
            id: id.to_string(),
            tier,
            seed,
            level: "exploration",
            rule: String::new(),
            assumptions: Vec::new(),
            verif_dir,
            threads,
            start: Instant::now(),
            deadline: Instant::now() + Duration::from_secs(budget),
            replay,
            known,
            inner: Mutex::new(Inner::default()),
        }
    }

    pub fn quick(&self) -> bool {
        self.tier == Tier::Quick
    }

    /// Picks a size by tier.
    pub fn n(&self, quick: u64, thorough: u64) -> u64 {
        match self.tier {
            Tier::Quick => quick,
            Tier::Thorough => thorough,
        }
    }

    pub fn is_replay(&self) -> bool {
        self.replay.is_some()
    }

    pub fn out_of_time(&self) -> bool {
        Instant::now() > self.deadline
    }

    pub fn case_seed(&self, sub: &str, k: u64) -> u64 {
        mix(&[self.seed, str_hash(&self.id), str_hash(sub), k])
    }

    /// Runs cases `0..n` of sub-check `sub` on `threads` threads (all cores if 0). Each case gets
    /// its own deterministic RNG. A panic escaping the closure is a violation (`<sub>/panic`).
    pub fn cases<F>(&self, sub: &str, n: u64, threads: usize, f: F)
    where
        F: Fn(&mut Case) + Sync,
    {
        let (lo, hi) = match &self.replay {
            Some((rsub, k)) => {
                if rsub != sub {
                    return;
                }
                (*k, *k + 1)
            }
            None => (0, n),
        };
        {
            let mut inner = self.inner.lock().unwrap();
            inner.subs.entry(sub.to_string()).or_default();
        }
        let threads = if threads == 0 { self.threads } else { threads };
        let threads = threads.min((hi - lo) as usize).max(1);
        let next = AtomicU64::new(lo);
        let skipped = AtomicU64::new(0);
        let body = || loop {
            let k = next.fetch_add(1, Ordering::Relaxed);
            if k >= hi {
                break;
            }
            if self.out_of_time() && !self.is_replay() {
                skipped.fetch_add(1, Ordering::Relaxed);
                continue;
            }
            let mut case = Case {
                ctx: self,
                sub,
                k,
                rng: Rng::new(self.case_seed(sub, k)),
                outcome: RefCell::new(0),
            };
            let result = guarded(|| f(&mut case));
            if let Err(msg) = result {
                let short: String = msg.chars().take(160).collect();
                case.violation(&format!("{}/panic: {}", sub, short), json!({ "panic": msg }));
            }
            let outcome = *case.outcome.borrow();
            let mut inner = self.inner.lock().unwrap();
            let s = inner.subs.entry(sub.to_string()).or_default();
            s.cases += 1;
            match outcome {
                0 => s.held += 1,
                1 => s.violated += 1,
                _ => s.inconclusive += 1,
            }
        };
        if threads == 1 {
            body();
        } else {
            std::thread::scope(|scope| {
                for _ in 0..threads {
                    std::thread::Builder::new()
                        .stack_size(64 << 20)
                        .spawn_scoped(scope, body)
                        .unwrap();
                }
            });
        }
        let skipped = skipped.load(Ordering::Relaxed);
        if skipped > 0 {
            let mut inner = self.inner.lock().unwrap();
            let s = inner.subs.entry(sub.to_string()).or_default();
            s.note = format!("{} cases skipped: time budget exhausted", skipped);
        }
    }

    pub fn violation(&self, sub: &str, signature: &str, k: u64, witness: Value) {
        let mut inner = self.inner.lock().unwrap();
        if self.known.iter().any(|kn| kn.signature == signature) {
            *inner.known_seen.entry(signature.to_string()).or_default() += 1;
            return;
        }
        inner.violation_count += 1;
        let same = inner
            .violations
            .iter()
            .filter(|(_, s, _, _)| s == signature)
            .count();
        if same < 3 && inner.violations.len() < 40 {
            inner
                .violations
                .push((sub.to_string(), signature.to_string(), k, witness));
        }
    }

    pub fn sample(&self, sub: &str, value: impl FnOnce() -> Value) {
        let mut inner = self.inner.lock().unwrap();
        let total = inner.samples.len();
        let count = inner.sample_subs.entry(sub.to_string()).or_default();
        if *count >= 2 || total >= 12 {
            return;
        }
        *count += 1;
        let v = value();
        inner.samples.push(json!({ "sub_check": sub, "case": v }));
    }

    pub fn add(&self, counter: &str, n: u64) {
        let mut inner = self.inner.lock().unwrap();
        *inner.counters.entry(counter.to_string()).or_default() += n;
    }

    /// Adds a member to a named set whose size is reported (e.g. distinct interleavings).
    pub fn set_insert(&self, set: &str, member: u64) {
        let mut inner = self.inner.lock().unwrap();
        inner.sets.entry(set.to_string()).or_default().insert(member);
    }

    pub fn info(&self, key: &str, value: Value) {
        let mut inner = self.inner.lock().unwrap();
        inner.info.insert(key.to_string(), value);
    }

    pub fn counter(&self, counter: &str) -> u64 {
        let inner = self.inner.lock().unwrap();
        inner.counters.get(counter).copied().unwrap_or(0)
    }

    /// Writes evidence, prints the verdict lines, returns the process exit code.
    pub fn finish(self) -> i32 {
        let wall = self.start.elapsed().as_secs_f64();
        let inner = self.inner.into_inner().unwrap();
        let mut evaluations = 0u64;
        let mut distinct = 0u64;
        let mut conclusive = 0u64;
        let mut subs_json = Map::new();
        for (name, s) in &inner.subs {
            evaluations += s.cases;
            distinct += s.nontrivial.len() as u64;
            conclusive += s.held + s.violated;
            subs_json.insert(
                name.clone(),
                json!({
                    "cases": s.cases, "held": s.held, "violated": s.violated,
                    "inconclusive": s.inconclusive, "distinct_inputs": s.seen.len(),
                    "distinct_nontrivial": s.nontrivial.len(), "note": s.note,
                }),
            );
        }
        let replays_dir = self.verif_dir.join("replays");
        if self.replay.is_none() {
            // replay files of earlier runs of this property are stale now
            if let Ok(entries) = std::fs::read_dir(&replays_dir) {
                for e in entries.flatten() {
                    if e.file_name().to_string_lossy().starts_with(&format!("{}-", self.id)) {
                        let _ = std::fs::remove_file(e.path());
                    }
                }
            }
        }
        let mut exit = 0;
        let mut printed = HashSet::new();
        for (sub, signature, k, witness) in &inner.violations {
            exit = 1;
            let _ = std::fs::create_dir_all(&replays_dir);
            let safe_sub: String = sub
                .chars()
                .map(|c| if c.is_ascii_alphanumeric() { c } else { '_' })
                .collect();
            let path = replays_dir.join(format!("{}-{}-{}-{}.json", self.id, safe_sub, self.seed, k));
            let body = json!({
                "property": self.id, "sub_check": sub, "seed": self.seed, "k": k,
                "tier": if self.tier == Tier::Quick { "quick" } else { "thorough" },
                "signature": signature, "witness": witness,
            });
            let _ = std::fs::write(&path, serde_json::to_string_pretty(&body).unwrap());
            if printed.insert(path.clone()) {
                println!("VIOLATION property={} replay={}", self.id, path.display());
                println!("  signature: {}", signature);
            }
        }
        if inner.violation_count > inner.violations.len() as u64 {
            println!(
                "  ({} further violations with already reported signatures not written out)",
                inner.violation_count - inner.violations.len() as u64
            );
        }
        for kn in &self.known {
            if let Some(n) = inner.known_seen.get(&kn.signature) {
                println!(
                    "KNOWN-FINDING: property={} {} ({}; seen {} times in this run)",
                    self.id, kn.signature, kn.what, n
                );
            }
        }
        for (sub, reason) in inner.inconclusive.iter().take(10) {
            println!("INCONCLUSIVE: property={} sub_check={} {}", self.id, sub, reason);
        }
        for (name, s) in &inner.subs {
            if s.cases > 0 && s.held + s.violated == 0 {
                println!(
                    "INCONCLUSIVE: property={} sub_check={} no case reached a verdict",
                    self.id, name
                );
            }
        }
        if conclusive == 0 && exit == 0 && !self.replay.is_some() {
            println!("NO-EVIDENCE: property={} no case reached a verdict", self.id);
            exit = 2;
        }
        let mut coverage = Map::new();
        coverage.insert("evaluations".into(), json!(evaluations));
        coverage.insert("distinct_nontrivial".into(), json!(distinct));
        coverage.insert("rule".into(), json!(self.rule));
        let mut samples = inner.samples.clone();
        if samples.is_empty() {
            samples.push(json!({"note": "no sample recorded"}));
        }
        coverage.insert("samples".into(), Value::Array(samples));
        coverage.insert("sub_checks".into(), Value::Object(subs_json));
        let mut counters = Map::new();
        for (k, v) in &inner.counters {
            counters.insert(k.clone(), json!(v));
        }
        for (k, v) in &inner.sets {
            counters.insert(format!("distinct_{}", k), json!(v.len()));
        }
        coverage.insert("observed".into(), Value::Object(counters));
        for (k, v) in &inner.info {
            coverage.insert(k.clone(), v.clone());
        }
        coverage.insert(
            "known_findings_seen".into(),
            json!(inner.known_seen.iter().map(|(k, v)| json!({"signature": k, "count": v})).collect::<Vec<_>>()),
        );
        coverage.insert(
            "inconclusive".into(),
            json!(inner.inconclusive.iter().map(|(s, r)| format!("{}: {}", s, r)).collect::<Vec<_>>()),
        );
        let evidence = json!({
            "property_id": self.id,
            "tier": if self.tier == Tier::Quick { "quick" } else { "thorough" },
            "seed": self.seed,
            "level": self.level,
            "coverage": Value::Object(coverage),
            "assumptions": self.assumptions,
            "wall_s": (wall * 1000.0).round() / 1000.0,
            "violations": inner.violation_count,
        });
        if self.replay.is_none() {
            let dir = self.verif_dir.join("evidence");
            let _ = std::fs::create_dir_all(&dir);
            let path = dir.join(format!("{}.json", self.id));
            if let Err(e) = std::fs::write(&path, serde_json::to_string_pretty(&evidence).unwrap() + "\n") {
                eprintln!("cannot write evidence {}: {}", path.display(), e);
                if exit == 0 {
                    exit = 2;
                }
            }
        }
        println!(
            "{} {}: cases={} conclusive={} distinct_nontrivial={} violations={} known={} wall={:.1}s",
            self.id,
            if self.tier == Tier::Quick { "quick" } else { "thorough" },
            evaluations,
            conclusive,
            distinct,
            inner.violation_count,
            inner.known_seen.values().sum::<u64>(),
            wall
        );
        exit
    }
}

fn load_known(verif_dir: &std::path::Path, id: &str) -> Vec<Known> {
    let path = verif_dir.join("known_findings.json");
    let Ok(text) = std::fs::read_to_string(&path) else {
        return Vec::new();
    };
    let Ok(v) = serde_json::from_str::<Value>(&text) else {
        eprintln!("warning: {} is not valid JSON; ignoring", path.display());
        return Vec::new();
    };
    let mut out = Vec::new();
    if let Some(items) = v.get("findings").and_then(|f| f.as_array()) {
        for item in items {
            if item.get("property").and_then(|p| p.as_str()) == Some(id) {
                if let Some(sig) = item.get("signature").and_then(|s| s.as_str()) {
                    out.push(Known {
                        signature: sig.to_string(),
                        what: item
                            .get("what")
                            .and_then(|s| s.as_str())
                            .unwrap_or("")
                            .to_string(),
                    });
                }
            }
        }
    }
    out
}

/// Structural hash helper for `distinct`.
pub fn hash_of<T: std::hash::Hash>(t: &T) -> u64 {
    use std::hash::Hasher;
    let mut h = std::collections::hash_map::DefaultHasher::new();
    t.hash(&mut h);
    h.finish()
}
