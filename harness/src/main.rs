//! svmon — runtime monitors for the stateright properties C01..C20.
//!
//! usage: svmon <ID> [--tier quick|thorough] [--seed N] [--replay FILE]
//!        svmon --worker <kind> <args...>      (internal: isolated scenario subprocess)

mod checks;
mod ctx;
mod graph;
mod hist;
mod rechash;
mod rng;
mod runner;
mod tables;
mod worker;

use ctx::{Ctx, Tier};

fn main() {
    ctx::install_quiet_panic_hook();
    let args: Vec<String> = std::env::args().skip(1).collect();
    if args.is_empty() {
        eprintln!("usage: svmon <ID> [--tier quick|thorough] [--seed N] [--replay FILE]");
        std::process::exit(64);
    }
    if args[0] == "--miri-lane" {
        std::process::exit(checks::miri_lane(args.get(1).map(String::as_str).unwrap_or("c05")));
    }
    if args[0] == "--worker" {
        std::process::exit(checks::worker(&args[1..]));
    }
    let id = args[0].to_uppercase();
    let mut tier = match std::env::var("VERIF_TIER").as_deref() {
        Ok("thorough") => Tier::Thorough,
        _ => Tier::Quick,
    };
    let mut tier_explicit = false;
    let mut seed: u64 = std::env::var("VERIF_SEED")
        .ok()
        .and_then(|s| s.trim().parse::<i64>().ok())
        .map(|v| v as u64)
        .unwrap_or(1);
    let mut replay = None;
    let mut i = 1;
    while i < args.len() {
        match args[i].as_str() {
            "--tier" => {
                i += 1;
                tier = if args.get(i).map(String::as_str) == Some("thorough") {
                    Tier::Thorough
                } else {
                    Tier::Quick
                };
                tier_explicit = true;
            }
            "quick" => {
                tier = Tier::Quick;
                tier_explicit = true;
            }
            "thorough" => {
                tier = Tier::Thorough;
                tier_explicit = true;
            }
            "--seed" => {
                i += 1;
                seed = args.get(i).and_then(|s| s.parse::<i64>().ok()).map(|v| v as u64).unwrap_or(seed);
            }
            "--replay" => {
                i += 1;
                let path = args.get(i).cloned().unwrap_or_default();
                let text = std::fs::read_to_string(&path).unwrap_or_else(|e| {
                    eprintln!("cannot read replay file {}: {}", path, e);
                    std::process::exit(64);
                });
                let v: serde_json::Value = serde_json::from_str(&text).unwrap_or_else(|e| {
                    eprintln!("replay file {} is not JSON: {}", path, e);
                    std::process::exit(64);
                });
                seed = v["seed"].as_u64().unwrap_or(seed);
                if !tier_explicit {
                    tier = if v["tier"].as_str() == Some("thorough") { Tier::Thorough } else { Tier::Quick };
                }
                replay = Some((
                    v["sub_check"].as_str().unwrap_or("").to_string(),
                    v["k"].as_u64().unwrap_or(0),
                ));
            }
            other => {
                eprintln!("unknown argument {}", other);
                std::process::exit(64);
            }
        }
        i += 1;
    }
    let _ = tier_explicit;
    let mut ctx = Ctx::new(&id, tier, seed, replay);
    if !checks::run(&mut ctx) {
        eprintln!("unknown property id {}", id);
        std::process::exit(64);
    }
    std::process::exit(ctx.finish());
}
