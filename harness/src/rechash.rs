//! O5 (part): a `Hasher` that records the byte stream it is fed, so that a systematic collision
//! (identical streams for different values) can be told from 64-bit bad luck.

use std::hash::{Hash, Hasher};

#[derive(Default, Clone, Debug, PartialEq, Eq, Hash)]
pub struct RecHasher {
    pub bytes: Vec<u8>,
}

impl Hasher for RecHasher {
    fn finish(&self) -> u64 {
        0
    }
    fn write(&mut self, bytes: &[u8]) {
        self.bytes.extend_from_slice(bytes);
    }
}

/// The byte stream `value` feeds to a hasher.
pub fn stream_of<T: Hash + ?Sized>(value: &T) -> Vec<u8> {
    let mut h = RecHasher::default();
    value.hash(&mut h);
    h.bytes
}

pub fn fp<T: Hash>(value: &T) -> u64 {
    stateright::verif::fingerprint_of(value)
}
